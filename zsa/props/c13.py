"""C13 — Huffman tables are valid and literal coding round-trips (structural clauses)."""
from .. import bits as B, hir as H, hq, tables as T
from ..core import Anchor
from ..rules import dom, inventory as INV
from . import c07, c14

CONFIGS_QUICK = ["ws"]
CONFIGS_THOROUGH = ["ws", "nostd_nohash", "release"]
TECHNIQUE = "guard-dominance on the weight parser/table builder and layout agreement of the weight description and 4-stream framing (DOM/LAYOUT/TABLE)"
EXPLANATION = (
    "Decided: (reject) in build_table_from_weights the table is sized and filled only after weight > 11, zero "
    "weight sum, leftover-not-a-power-of-two and max-bits > 11 were rejected, with MAX_MAX_NUM_BITS = 11; (header "
    "split) the reader treats header bytes 0..=127 as the byte length of FSE-compressed weights and header-127 as "
    "the direct weight count, the writer emits len+127 on the direct path (at most 16 weights, so at most 143) and "
    "on the FSE path a size byte asserted < 128 that is back-patched into the placeholder written first; (nibbles) "
    "direct weights: even index in the high nibble on both sides, a trailing odd weight in the high nibble; the "
    "last weight is omitted by the writer and inferred by the reader; FSE weights use two interleaved states "
    "starting with the first decoder, accuracy log <= 6 (C12); (4 streams) the writer reserves three 16-bit "
    "little-endian sizes, writes the four streams in order and patches sizes 1-3, the reader accumulates them "
    "(C01.layout.jump-table); every stream is written last-symbol-first and closed with the 1-bit padding marker "
    "the reader skips; (direct extent) for each of the 128 direct headers the length guard and the reported byte "
    "count are ceil(n/2) and 1 + ceil(n/2), evaluated in the source's own integer types; (remembered table) the "
    "compressor remembers a Huffman table for treeless reuse only if its description was written and kept (shared "
    "with C02.pair.huffman-commit); (reuse) self.can_encode(other) refuses when `other` has a code for a symbol `self` has "
    "none for (provenance of the compared values through the zip), and the caller asks the old table about the table built "
    "from the current literals. Not decided: completeness/depth of the generated code, the < 128-byte bound, canonical code "
    "assignment and round trip for every histogram — numerical.")
ASSUMPTIONS = ["BitWriter::write_bits is LSB-first", "code construction arithmetic not analysed"]

HUFD = c07.HUF
HUFE = "ruzstd::huff0::huff0_encoder"
SPEC = c14.SPEC


def booleval_atom(c):
    from .. import booleval
    return booleval.norm_atom(c)


def _nibble_order(ctx, RH, rb, direct, m):
    from .. import ieval
    ix = hq.Index(rb)
    hl = hq.peel(m["scrut"])
    inside = lambda x, o: o["sp"][0] <= x["sp"][0] and x["sp"][1] <= o["sp"][1]
    is_weights = lambda e: hq.field_chain(e)[1] == ["weights"] and hq.field_chain(e)[0].get("k") == "Local" and hq.field_chain(e)[0].get("name") == "self"
    stores = []
    for x, _ in H.walk(direct):
        if x.get("k") != "Assign":
            continue
        l = hq.peel(x["l"])
        loops = [a for a in ix.ancestors(x) if a.get("k") in ("For", "While", "Loop") and inside(a, direct)]
        if l.get("k") == "Index" and is_weights(l["e"]):
            stores.append((x, l["idx"], loops))
        elif l.get("k") == "Unary" and l["op"] == "*" and hq.peel(l["e"]).get("k") == "Local":
            stores.append((x, hq.peel(l["e"]), loops))
    if not stores or any(len(lp) != 1 or lp[0]["k"] != "For" or lp[0] is not stores[0][2][0] for _, _, lp in stores):
        raise Anchor("the direct weights are not stored by one `for` loop")
    loop = stores[0][2][0]
    pat, it = loop["pat"], hq.peel(loop["iter"])
    # what the loop variable ranges over
    rs = [x for x in hq.find(direct, lambda x: x.get("k") == "MethodCall" and x["name"] == "resize" and is_weights(x["recv"]) and x["sp"][1] < loop["sp"][0])]
    if len(rs) != 1:
        raise Anchor("self.weights is not resized once before the loop")
    elem_lid = None
    if pat.get("k") == "Bind" and it.get("k") == "StructLit" and (it["path"].get("path") or "").endswith("range::RangeTo") and len(it["fields"]) == 1:
        var, count = pat["lid"], it["fields"][0]["e"]
    elif pat.get("k") == "Tuple" and len(pat.get("pats") or pat.get("elems") or ()) == 2 and it.get("k") == "MethodCall" and it["name"] == "enumerate" and \
            hq.peel(it["recv"]).get("k") == "MethodCall" and hq.peel(it["recv"])["name"] == "iter_mut" and is_weights(hq.peel(it["recv"])["recv"]):
        ps = pat.get("pats") or pat.get("elems")
        if ps[0].get("k") != "Bind" or ps[1].get("k") != "Bind":
            raise Anchor("loop pattern")
        var, elem_lid, count = ps[0]["lid"], ps[1]["lid"], rs[0]["args"][0]
    else:
        raise Anchor("the direct weights loop is neither `for i in 0..n` nor `for (i, w) in self.weights.iter_mut().enumerate()`")
    raw = lambda j: (((2 * j) % 16) << 4) | ((2 * j + 1) % 16)
    bad = []
    h = 255
    n_exp = h - SPEC["huffman"]["direct_offset"]
    try:
        base = ieval.IEval(rb, {hl["lid"]: h})
        n = base.ev(count)
        sized = base.ev(rs[0]["args"][0])
        if n != n_exp or sized != n_exp:
            bad.append("header %d: loop runs %d times over a vector of %d weights, %d expected" % (h, n, sized, n_exp))
        ev = ieval.IEval(rb, {hl["lid"]: h})

        def hook(x):
            if x.get("k") == "Index" and not is_weights(x["e"]) and (x.get("base_ty") or "").lstrip("&").startswith("[u8"):
                return raw(ev.ev(x["idx"]))
            return None
        ev.hook = hook
        pcs = []
        for x, target, _ in stores:
            pc = ix.path_conditions(x)
            if any(c["kind"] == "arm" and c.get("node") is not None and inside(c["node"], loop) for c in pc):
                raise Anchor("a store under a match inside the loop")
            pcs.append([c for c in pc if c.get("node") is not None and inside(c["node"], loop) and c["kind"] in ("if", "else", "arm-guard")])
        for t in range(min(n, 256)):
            ev.env[var] = t
            done = []
            for (x, target, _), conds in zip(stores, pcs):
                if all(ev.ev(c["expr"]) == c["pos"] for c in conds):
                    where = t if (target.get("k") == "Local" and target.get("lid") == elem_lid) else ev.ev(target)
                    done.append((where, ev.ev(x["r"])))
            if done != [(t, t % 16)]:
                bad.append("weight %d: stores %s, expected weight[%d] = nibble %d of the payload" % (t, done, t, t))
    except ieval.Overflow as e:
        bad.append(e.what)
    except ieval.Unsupported as e:
        raise Anchor("direct weights loop not evaluable: %s" % e)
    ctx.check(not bad, RH, "reader::nibble-order", rb["file"], "weight t is nibble t of the payload: even weights in the high nibble, odd weights in the low nibble",
              observed=bad[:3])


# "literals encoded in one or four streams decode to the same literals": the reader of the four-stream jump table is
# C01.layout.jump-table; reported here as C13.reader
INCLUDES = [
    ("c01", "C13.reader", {"rules": ("C01.layout.jump-table",)}, 2),
]

def run(ctx):
    crate = ctx.crate()
    R = "C13.dom.reject"

    def reject():
        b = ctx.hir(HUFD + "::build_table_from_weights")
        ix = hq.Index(b)
        rs = [x for x in hq.find(b["body"], lambda x: x.get("k") == "MethodCall" and x["name"] == "resize" and hq.field_chain(x["recv"])[1] == ["decode"])]
        if len(rs) != 1:
            raise Anchor("decode table sizing not found")
        gs = [g for g in ix.all_guards() if g["errs"]]
        before = {g["errs"][0].split("::")[-1]: INV.norm(g["raw"]) for g in gs if g["node"]["sp"][0] < rs[0]["sp"][0]}
        want = {
            "WeightBiggerThanMaxNumBits": "(11 < @Iterator::next[*])",
            "MissingWeights": "(0 == @mut:0)",
            "MaxBitsTooHigh": None,
            "LeftoverIsNotAPowerOf2": None,
        }
        for k, v in want.items():
            ok = k in before and (v is None or before[k] == v or (k == "WeightBiggerThanMaxNumBits" and before[k].startswith("(11 < ")))
            ctx.check(ok, R, "build_table_from_weights::" + k, b["file"], "%s must be rejected before the table is sized and filled" % k,
                      observed=before.get(k))
        ctx.check(before.get("MaxBitsTooHigh", "").startswith("(11 < "), R,
                  "build_table_from_weights::max-bits-compared-with-11", b["file"], "max bits compared with MAX_MAX_NUM_BITS", observed=before.get("MaxBitsTooHigh"))
        ctx.check("is_power_of_two" in before.get("LeftoverIsNotAPowerOf2", "") and before["LeftoverIsNotAPowerOf2"].startswith("!"), R,
                  "build_table_from_weights::leftover-power-of-two", b["file"], "leftover must be a power of two", observed=before.get("LeftoverIsNotAPowerOf2"))
        mb = ctx.const("ruzstd::huff0::huff0_decoder::MAX_MAX_NUM_BITS")
        ctx.check(mb == SPEC["huffman"]["max_bits"], R, "MAX_MAX_NUM_BITS", "", "maximum code length", observed=mb, expected=11)
        # the table size is 1 << max_bits and every slot is written (assert on rank_indexes[0] == len is in C03's inventory)
        sz = ix.canon(rs[0]["args"][0])
        ctx.check(sz.startswith("(1 << ") or "1 <<" in sz, R, "build_table_from_weights::table-size", b["file"], "table has 2^max_bits entries", observed=sz)
        # build_decoder: weights are read, then the table built; errors propagate
        bd = ctx.hir(HUFD + "::build_decoder")
        s = H.show(bd["body"])
        ctx.check("self.read_weights(source)?" in s and "self.build_table_from_weights()?" in s and s.index("read_weights") < s.index("build_table_from_weights"),
                  R, "build_decoder::order", bd["file"], "weights are parsed before the table is built; both can fail")
    ctx.guard(R, "reject", reject)

    RH = "C13.layout.weights"

    def weights():
        rb = ctx.hir(HUFD + "::read_weights")
        m = T.find_match(rb["body"], lambda s: H.show(hq.peel(s)) == "header")
        arms = T.arms(m)
        ok = len(arms) == 2 and arms[0][0] == [(0, SPEC["huffman"]["fse_header_below"] - 1)] and arms[1][0] is None
        ctx.check(ok, RH, "reader::header-split-at-128", rb["file"], "header 0..=127: FSE-compressed weights; otherwise direct", observed=[a[0] for a in arms])
        direct = arms[1][2]
        nw = [x for x in hq.find(direct, lambda x: x.get("k") == "LetStmt" and x["pat"].get("name") == "num_weights")]
        ctx.check(len(nw) == 1 and H.show(hq.peel(nw[0]["init"])) == "(header - %d)" % SPEC["huffman"]["direct_offset"], RH, "reader::direct-count",
                  rb["file"], "direct weight count = header - 127", observed=H.show(nw[0]["init"]) if nw else None)
        # nibble order on the reader: decided by evaluating the stores of the direct arm on a virtual payload whose
        # k-th nibble is k mod 16 (zsa/ieval.py) — weight t must come out as t mod 16 for every t
        _nibble_order(ctx, RH, rb, direct, m)
        # FSE path: header bytes available, two decoders alternate starting with the first
        fse = arms[0][2]
        bl = [x for x in hq.find(fse, lambda x: x.get("k") == "MethodCall" and x["name"] == "build_decoder")]
        ev = [(H.show(hq.peel(x["recv"])), x["name"]) for x in hq.find(fse, lambda x: x.get("k") == "MethodCall" and x["name"] in ("init_state", "decode_symbol", "update_state"))]
        want_ev = [("dec1", "init_state"), ("dec2", "init_state"), ("dec1", "decode_symbol"), ("dec1", "update_state"), ("dec2", "decode_symbol"),
                   ("dec2", "decode_symbol"), ("dec2", "update_state"), ("dec1", "decode_symbol")]
        ctx.check(len(bl) == 1 and ev == want_ev, RH, "reader::interleaved-states", rb["file"],
                  "two FSE states share one table; state 1 decodes even weights, state 2 odd weights; the other state's symbol is flushed at the end",
                  observed=ev)
        cl = H.show(hq.peel([x for x in hq.find(fse, lambda x: x.get("k") == "LetStmt" and x["pat"].get("name") == "compressed_length")][0]["init"]))
        ctx.check(cl == "((header as usize) - bytes_used_by_fse_header)", RH, "reader::compressed-length", rb["file"],
                  "the header byte counts table description plus compressed weights", observed=cl)
        # writer
        wb = ctx.hir(HUFE + "::HuffmanEncoder::write_table")
        wix = hq.Index(wb)
        top = [x for x in hq.find(wb["body"], lambda x: x.get("k") == "If" and "weights.len()" in H.show(x["cond"]))]
        ctx.check(len(top) == 1 and H.show(hq.peel(top[0]["cond"])) == "(16 < weights.len())", RH, "writer::direct-up-to-16", wb["file"],
                  "direct representation for at most 16 weights (header <= 143)", observed=[H.show(x["cond"]) for x in top])
        fse_b, dir_b = top[0]["then"], top[0]["else"]
        w1 = [x for x in hq.find(dir_b, lambda x: x.get("k") == "MethodCall" and x["name"] == "write_bits")]
        w1.sort(key=lambda x: x["sp"][0])
        seq = [(H.show(hq.peel(x["args"][0])), H.lit_val(x["args"][1])) for x in w1]
        want_w = [("((weights.len() as u8) + 127)", 8), ("weight2", 4), ("weight1", 4), ("(weight << 4)", 8)]
        ctx.check(seq == want_w, RH, "writer::direct-layout", wb["file"],
                  "header len+127, then per pair the second weight in the low nibble and the first in the high nibble; a trailing weight in the high nibble",
                  observed=seq, expected=want_w)
        prs = {x["pat"]["name"]: H.show(hq.peel(x["init"])) for x in hq.find(dir_b, lambda x: x.get("k") == "LetStmt" and x["pat"].get("name") in ("weight1", "weight2", "weight"))}
        ctx.check(prs == {"weight1": "pair[0]", "weight2": "pair[1]", "weight": "remainder[0]"}, RH, "writer::pair-members", wb["file"], "pair members", observed=prs)
        w2 = [x for x in hq.find(fse_b, lambda x: x.get("k") == "MethodCall" and x["name"] in ("write_bits", "change_bits"))]
        w2.sort(key=lambda x: x["sp"][0])
        seq2 = [(x["name"], [H.show(hq.peel(a)) for a in x["args"]]) for x in w2]
        ok = len(seq2) == 2 and seq2[0] == ("write_bits", ["0", "8"]) or (len(seq2) == 2 and seq2[0][0] == "write_bits" and seq2[0][1][1] == "8")
        ok = ok and seq2[1][0] == "change_bits" and seq2[1][1] == ["size_idx", "(encoded_len as u8)", "8"]
        asserts = [H.show(x["cond"]) for x in hq.find(fse_b, lambda x: x.get("k") == "If" and (x.get("mac") or "").startswith("assert"))]
        ok = ok and any("encoded_len < 128" in a or "128 <= encoded_len" in a for a in asserts)
        si = [x for x in hq.find(fse_b, lambda x: x.get("k") == "LetStmt" and x["pat"].get("name") == "size_idx")]
        ok = ok and len(si) == 1 and si[0]["sp"][1] < w2[0]["sp"][0]
        ctx.check(ok, RH, "writer::fse-size-byte", wb["file"], "FSE path: placeholder byte first, compressed length asserted < 128 and back-patched into it",
                  observed=seq2)
        el = H.show(hq.peel([x for x in hq.find(fse_b, lambda x: x.get("k") == "LetStmt" and x["pat"].get("name") == "encoded_len")][0]["init"]))
        ctx.check(el == "((self.writer.index() - idx_before) >> 3)", RH, "writer::fse-length-counts-table-and-stream", wb["file"],
                  "the size byte covers the table description and the compressed weights", observed=el)
        lw = [x for x in hq.find(wb["body"], lambda x: x.get("k") == "LetStmt" and x["pat"].get("name") == "weights")]
        ctx.check(len(lw) == 2 and H.PRETTY_RANGES is False and "weights.len() - 1" in H.show(lw[1]["init"]), RH, "writer::last-weight-omitted", wb["file"],
                  "the last weight is not transmitted")
        # reader infers it
        bt = ctx.hir(HUFD + "::build_table_from_weights")
        s = H.show(bt["body"])
        ctx.check("self.weights.push(last_weight" in s.replace("(last_weight as u8)", "last_weight") or "last_weight" in s, RH, "reader::last-weight-inferred",
                  bt["file"], "the last weight is computed from the leftover and appended")
        ei = ctx.hir("ruzstd::fse::fse_encoder::FSEEncoder::encode_interleaved")
        ctx.check(ei is not None, RH, "writer::interleaved-encoder-present", ei["file"], "weights are FSE-coded with two interleaved states")
    ctx.guard(RH, "weights", weights)

    RX = "C13.layout.direct-extent"

    def direct_extent():
        """direct weight description, for every header byte h of that form (128..=255, n = h - 127 weights): the
        length guard fires exactly below ceil(n / 2) payload bytes and the function reports 1 + ceil(n / 2) bytes
        consumed — both decided by evaluating the guard's bound and the consumed-bytes expression, in the types the
        source computes them in, for each of the 128 headers (a u8 product such as n * 4 overflows from n = 64)."""
        from .. import ieval
        rb = ctx.hir(HUFD + "::read_weights")
        ix = hq.Index(rb)
        m = T.find_match(rb["body"], lambda s_: H.show(hq.peel(s_)) == "header")
        arms = T.arms(m)
        if len(arms) != 2 or arms[1][0] is not None or not arms[0][0]:
            raise Anchor("header dispatch of read_weights is not `0..=k => FSE, _ => direct`")
        hl = hq.peel(m["scrut"])
        if hl.get("k") != "Local":
            raise Anchor("header is not a local")
        direct = arms[1][2]
        domain = [h for h in range(256) if not any(lo <= h <= hi for lo, hi in arms[0][0])]
        inside = lambda x: direct["sp"][0] <= x["sp"][0] and x["sp"][1] <= direct["sp"][1]
        # (1) the length guard
        gs = [g for g in ix.all_guards() if inside(g["node"]) and any("NotEnoughBytesInSource" in e for e in g.get("errs") or ()) and "expr" in g]
        ctx.check(len(gs) == 1, RX, "reader::one-length-guard", rb["file"], "the direct form has one length guard (NotEnoughBytesInSource)", observed=len(gs))
        acc = [x for x, _ in H.walk(rb["body"]) if x.get("k") == "LetStmt" and x["pat"].get("name") == "bits_read" and x["pat"].get("mut")]
        if len(acc) != 1 or len(gs) != 1:
            raise Anchor("bit counter / guard of read_weights not found")
        acc_lid = acc[0]["pat"]["lid"]
        tail = hq.peel(hq.tail_expr(rb["body"]))
        if not (tail.get("k") == "Call" and (H.callee(tail) or "").endswith("Result::Ok") and len(tail["args"]) == 1):
            raise Anchor("read_weights does not end in Ok(bytes)")
        # increments of the counter inside the direct arm: straight-line, or once per iteration of `for _ in ..n`
        incs = []
        for x, _ in H.walk(direct):
            if x.get("k") in ("Assign", "AssignOp") and hq.peel(x["l"]).get("k") == "Local" and hq.peel(x["l"])["lid"] == acc_lid:
                if x["k"] != "AssignOp" or x["op"] != "+=":
                    raise Anchor("the bit counter is written other than by `+=` in the direct arm")
                loops = [a for a in ix.ancestors(x) if a.get("k") in ("For", "While", "Loop") and inside(a)]
                conds = [c for c in ix.path_conditions(x) if c["kind"] in ("if", "else", "arm", "arm-guard") and inside(c.get("node") or direct) and
                         c.get("node") is not None and c["node"]["sp"][0] >= direct["sp"][0] and c["node"] is not m]
                if len(loops) > 1 or (loops and loops[0]["k"] != "For") or conds:
                    raise Anchor("the bit counter is advanced conditionally or in a nested / non-`for` loop in the direct arm")
                trip = None
                if loops:
                    it = hq.peel(loops[0]["iter"])
                    if not (it.get("k") == "StructLit" and (it["path"].get("path") or "").endswith("range::RangeTo") and len(it["fields"]) == 1):
                        raise Anchor("loop over something else than `0..n`")
                    trip = it["fields"][0]["e"]
                incs.append((x["r"], trip))
        ctx.check(len(incs) >= 1, RX, "reader::counter-advanced", rb["file"], "the direct arm advances the bit counter", observed=len(incs))
        bad_g, bad_r = [], []
        evg = ieval.IEval(rb, {})
        lens = lambda x: x.get("k") == "MethodCall" and x["name"] == "len" and (H.callee(x) or "").startswith("core::slice")
        for h in domain:
            n = h - SPEC["huffman"]["direct_offset"]
            need = (n + 1) // 2
            try:
                for have, fire in ((need - 1, True), (need, False)):
                    if have < 0:
                        continue
                    evg.env[hl["lid"]] = h
                    evg.hook = lambda x, have=have: have if lens(x) else None
                    v = evg.ev(gs[0]["expr"])
                    if (v != gs[0].get("pos", False)) != fire:      # pos: the continuing path's condition is expr (True) / !expr (False)
                        bad_g.append("header %d (%d weights): with %d payload bytes the guard %s" % (h, n, have, "does not fire" if fire else "fires"))
            except ieval.Overflow as e:
                bad_g.append("header %d: %s" % (h, e.what))
            try:
                ev = evg
                ev.hook = None
                ev.env = {hl["lid"]: h}
                total = ev.ev(acc[0]["init"])
                for r, trip in incs:
                    total += ev.ev(r) * (ev.ev(trip) if trip is not None else 1)
                ev.env = {hl["lid"]: h, acc_lid: total}
                got = ev.ev(tail["args"][0])
                ev.env = {}
                if got != 1 + need:
                    bad_r.append("header %d (%d weights): reports %d bytes consumed, the description occupies %d" % (h, n, got, 1 + need))
            except ieval.Overflow as e:
                bad_r.append("header %d: %s" % (h, e.what))
        ctx.check(not bad_g, RX, "reader::guard-at-ceil-half", H.loc(rb, gs[0]["node"]),
                  "the length guard must fire exactly when fewer than ceil(n / 2) bytes follow the header, for each of the %d direct headers" % len(domain),
                  observed=bad_g[:3] + (["... %d headers in all" % len(bad_g)] if len(bad_g) > 3 else []))
        ctx.check(not bad_r, RX, "reader::bytes-consumed", rb["file"],
                  "read_weights must report 1 + ceil(n / 2) bytes for a direct description of n weights, for each of the %d direct headers" % len(domain),
                  observed=bad_r[:3] + (["... %d headers in all" % len(bad_r)] if len(bad_r) > 3 else []))
        ctx.check(len(domain) == 128, RX, "reader::domain", rb["file"], "direct headers are 128..=255", observed=len(domain))
    ctx.guard(RX, "direct_extent", direct_extent)

    RS = "C13.layout.streams"

    def streams():
        b = ctx.hir(HUFE + "::HuffmanEncoder::encode4x")
        lets = {x["pat"]["name"]: H.show(hq.peel(x["init"])) for x in hq.find(b["body"], lambda x: x.get("k") == "LetStmt" and x["pat"].get("k") == "Bind" and x.get("init"))}
        H.PRETTY_RANGES = True
        try:
            lets = {x["pat"]["name"]: H.show(hq.peel(x["init"])) for x in hq.find(b["body"], lambda x: x.get("k") == "LetStmt" and x["pat"].get("k") == "Bind" and x.get("init"))}
        finally:
            H.PRETTY_RANGES = False
        want = {"split_size": "data.len().div_ceil(4)", "src1": "&data[..split_size]", "src2": "&data[split_size..(split_size << 1)]",
                "src3": "&data[(split_size << 1)..(split_size * 3)]", "src4": "&data[(split_size * 3)..]"}
        ctx.check({k: lets.get(k) for k in want} == want, RS, "encode4x::split", b["file"], "four parts of ceil(len/4) bytes, the last takes the rest",
                  observed={k: lets.get(k) for k in want}, expected=want)
        ev = []
        for x in hq.find(b["body"], lambda x: x.get("k") in ("MethodCall", "Call")):
            nm = x.get("name") or (H.callee(x) or "").split("::")[-1]
            if nm in ("write_table", "write_bits", "encode_stream", "change_bits"):
                args = [H.show(hq.peel(a)) for a in x["args"]]
                ev.append((nm, args[-1] if nm == "encode_stream" else (args[0] if nm == "change_bits" else (args[1] if nm == "write_bits" else ""))))
        want_ev = [("write_table", ""), ("write_bits", "16"), ("write_bits", "16"), ("write_bits", "16"), ("encode_stream", "src1"), ("encode_stream", "src2"),
                   ("encode_stream", "src3"), ("encode_stream", "src4"), ("change_bits", "size_idx"), ("change_bits", "(size_idx + 16)"), ("change_bits", "(size_idx + 32)")]
        ctx.check(ev == want_ev, RS, "encode4x::order", b["file"], "table, 6-byte jump table placeholder, streams 1-4, then the three sizes patched in place",
                  observed=ev, expected=want_ev)
        chg = [x for x in hq.find(b["body"], lambda x: x.get("k") == "MethodCall" and x["name"] == "change_bits")]
        vals = [(H.show(hq.peel(x["args"][1])), H.lit_val(x["args"][2])) for x in chg]
        ctx.check(vals == [("(size1 as u16)", 16), ("(size2 as u16)", 16), ("(size3 as u16)", 16)], RS, "encode4x::sizes", b["file"],
                  "jump table entries are the byte sizes of streams 1-3 as 16-bit little-endian values", observed=vals)
        sz = {k: lets.get(k) for k in ("size1", "size2", "size3")}
        ctx.check(all(v == "((self.writer.index() - index_before) >> 3)" for v in sz.values()), RS, "encode4x::size-measured-per-stream", b["file"],
                  "each size is measured around its own stream", observed=sz)
        si = [x for x in hq.find(b["body"], lambda x: x.get("k") == "LetStmt" and x["pat"].get("name") == "size_idx")]
        wbs = [x for x in hq.find(b["body"], lambda x: x.get("k") == "MethodCall" and x["name"] == "write_bits")]
        ctx.check(len(si) == 1 and all(si[0]["sp"][1] < x["sp"][0] for x in wbs), RS, "encode4x::placeholder-position", b["file"],
                  "the patch position is taken right before the placeholder")
        es = ctx.hir(HUFE + "::HuffmanEncoder::encode_stream")
        fr = [x for x in hq.find(es["body"], lambda x: x.get("k") == "For")]
        eix = hq.Index(es)
        ok = len(fr) == 1 and eix.canon(fr[0]["iter"]) == "core::iter::traits::iterator::Iterator::rev(core::slice::iter($2))"
        pw = [x for x in hq.find(es["body"], lambda x: x.get("k") == "MethodCall" and x["name"] == "write_bits") if x["sp"][0] > (fr[0]["sp"][1] if fr else 0)]
        # the end marker as rows (condition -> value, width), any spelling: 1 in 8 bits when aligned, else 1 in the missing bits
        pads = eix.group_alternatives([eix.call_rows([x], (0, 1)) for x in pw])
        from ..booleval import norm_atom
        okp = len(pads) == 1 and len(pads[0]) == 2
        if okp:
            rows_ = [([norm_atom(c_) for c_ in cs], v) for cs, v in pads[0]]
            al = [r for r in rows_ if len(r[0]) == 1 and r[0][0][1] and r[1] == ("1", "8")]
            ml = [r for r in rows_ if len(r[0]) == 1 and not r[0][0][1]]
            okp = len(al) == 1 and len(ml) == 1 and al[0][0][0][0] == ml[0][0][0][0]
            if okp:
                x_ = ml[0][1][1]
                okp = ml[0][1][0] == "1" and al[0][0][0][0] == "(0 == %s)" % x_ and \
                    x_ in ("@BitWriter::misaligned", "ruzstd::bit_io::bit_writer::BitWriter::misaligned($1)")
        ctx.check(ok and okp, RS, "encode_stream::reverse-and-padding", es["file"],
                  "symbols are written last-first and the stream is closed with a 1 bit then zero padding", observed=pads)
        # encode (single stream) writes table then the stream
        e1 = ctx.hir(HUFE + "::HuffmanEncoder::encode")
        s = H.show(e1["body"])
        ctx.check("if with_table { self.write_table() }" in s and "encode_stream(self.table, self.writer, data)" in s, RS, "encode::single-stream", e1["file"],
                  "single stream: optional table, then the stream")
    ctx.guard(RS, "streams", streams)
    # a previous table may be reused (treeless literals) only if it has a code for every symbol the current literals use
    RU = "C13.dom.reuse-covers-symbols"

    def reuse():
        import re
        cb = ctx.hir(HUFE + "::HuffmanTable::can_encode")
        ix = hq.Index(cb)
        cf = hq.Canon(cb, force=True)
        # the pairing of the two code tables: `A.iter().zip(B.iter())`, consumed by a `for` pattern or by the item
        # parameter of a closure (try_fold / all / any ...); which pattern variable comes from which table
        zips = [x for x in hq.find(cb["body"], lambda x: x.get("k") == "MethodCall" and x["name"] == "zip" and len(x.get("args") or ()) == 1)]
        if len(zips) != 1:
            raise Anchor("can_encode does not pair the two code tables with one zip")
        tab = lambda e: "other" if "$0.codes" in cf(e) else ("self" if "self.codes" in cf(e) else "?")
        pos = {0: tab(zips[0]["recv"]), 1: tab(zips[0]["args"][0])}
        item = None
        for x in hq.find(cb["body"], lambda x: x.get("k") == "For" and any(y is zips[0] for y, _ in H.walk(x["iter"]))):
            item = x["pat"]
        if item is None:
            for x in hq.find(cb["body"], lambda x: x.get("k") == "MethodCall" and any(y is zips[0] for y, _ in H.walk(x["recv"])) and
                             any(hq.peel(a_).get("k") == "Closure" for a_ in x.get("args") or ())):
                cl = next(hq.peel(a_) for a_ in x["args"] if hq.peel(a_).get("k") == "Closure")
                ps = cl.get("params") or []
                if ps:
                    item = ps[-1].get("pat") or ps[-1]
        while isinstance(item, dict) and item.get("k") in ("Ref", "Deref") and item.get("pat") is not None:
            item = item["pat"]
        parts = (item.get("pats") or item.get("elems") or []) if isinstance(item, dict) and item.get("k") in ("Tuple", "Tup") else []
        if len(parts) != 2:
            raise Anchor("the zipped pair is not destructured by a two-element pattern")
        lid_side = {}
        for i_, part in enumerate(parts):
            for y in (part if isinstance(part, list) else [part]):
                stack = [y]
                while stack:
                    z = stack.pop()
                    if isinstance(z, dict):
                        if z.get("k") == "Bind" and "lid" in z:
                            lid_side[z["lid"]] = pos[i_]
                        stack.extend(v for v in z.values() if isinstance(v, (dict, list)))
                    elif isinstance(z, list):
                        stack.extend(z)

        def side(e):
            e = hq.peel(e)
            while e.get("k") in ("Unary", "AddrOf", "Cast", "Field"):
                e = hq.peel(e["e"])
            if e.get("k") == "Local" and e["lid"] in lid_side:
                return lid_side[e["lid"]]
            c = cf(e)
            return "other" if "$0.codes" in c and "self.codes" not in c else ("self" if "self.codes" in c and "$0.codes" not in c else "?")

        def yields_none(bl):
            if ix.diverges(bl):
                return "None" in H.show(bl)
            v = hq.peel(bl)
            while v.get("k") == "Block" and v.get("expr") is not None:
                v = hq.peel(v["expr"])
            return v.get("k") in ("Item", "Path") and (v.get("path") or "").endswith("Option::None")
        # the refusing exit: `other has a code (bits != 0) && self has none (bits == 0)` -> None
        refusals = []
        for x in hq.find(cb["body"], lambda x: x.get("k") == "If"):
            if not yields_none(x["then"]):
                continue
            atoms = []
            for cc in ix.split_and(x["cond"]):
                e = hq.peel(cc)
                if e.get("k") == "Binary" and e["op"] in ("==", "!="):
                    l, r = hq.peel(e["l"]), hq.peel(e["r"])
                    v, other_e = (l, r) if H.lit_val(l) == 0 else ((r, l) if H.lit_val(r) == 0 else (None, None))
                    if v is not None:
                        atoms.append((e["op"], side(other_e)))
            if atoms:
                refusals.append(sorted(atoms))
        want = [sorted([("!=", "other"), ("==", "self")])]
        ctx.check(refusals == want, RU, "can_encode::refuses-when-self-lacks-a-code-other-uses", cb["file"],
                  "self.can_encode(other) must return None when some symbol has a code in `other` (bits != 0) but none in `self` (bits == 0)",
                  observed={"zip": pos, "refusals": refusals}, expected=want)
        lens = [g for g in ix.all_guards() if "Vec::len($0.codes)" in (g.get("raw") or "") and "Vec::len(self.codes)" in (g.get("raw") or "")]
        ok = len(lens) == 1 and booleval_atom(lens[0]["raw"]) == ("(alloc::vec::Vec::len(self.codes) < alloc::vec::Vec::len($0.codes))", True)
        ctx.check(ok, RU, "can_encode::refuses-longer-alphabet", cb["file"], "a table with more symbol slots than self cannot be encoded by self",
                  observed=[g.get("raw") for g in lens])
        # the caller asks the *old* table whether it can encode the table built from the *current* literals
        lb = ctx.hir("ruzstd::encoding::blocks::compressed::compress_literals")
        lcf = hq.Canon(lb, force=True)
        calls = [x for x in hq.find(lb["body"], lambda x: x.get("k") == "MethodCall" and x["name"] == "can_encode")]
        got = [(lcf(x["recv"]), lcf(x["args"][0])) for x in calls]
        ok = len(got) == 1 and got[0][0].startswith("$1@Option::Some") and got[0][1].endswith("HuffmanTable::build_from_data($0)")
        ctx.check(ok, RU, "compress_literals::old-table-asked-about-new-table", lb["file"],
                  "last_table.can_encode(&table built from these literals)", observed=got)
    ctx.guard(RU, "reuse", reuse)

    # a treeless literals section is decoded with the table of the last *transmitted* description: the compressor may
    # only remember a table whose description it actually wrote and kept (same rule instances as C02.pair.huffman-commit)
    from . import c02
    ctx.include(c02, "C13", select=lambda o: o.rule == "C02.pair.huffman-commit", floor=4)
    ctx.floor("C13.all", len([o for o in ctx.obs if o.cfg == ctx.cfg]), 24, "C13 obligations")

"""TABLE family helpers: finite maps read off `match` arms, affine arm bodies, interval algebra."""
from . import hir as H
from . import hq
from .core import Anchor

INF = 1 << 70


def pat_ranges(p):
    """Integer intervals [(lo, hi)] matched by a pattern; None for wildcard/binding (default arm)."""
    k = p["k"]
    if k in ("Wild",):
        return None
    if k == "Bind":
        if p.get("sub"):
            return pat_ranges(p["sub"])
        return None
    if k == "ExprPat":
        v = H.lit_val(p["e"])
        if v is None or isinstance(v, bool):
            raise Anchor("non-integer literal pattern")
        return [(v, v)]
    if k == "RangePat":
        lo = H.lit_val(p["lo"]) if p.get("lo") else 0
        hi = H.lit_val(p["hi"]) if p.get("hi") else INF
        if lo is None or hi is None:
            raise Anchor("range pattern with non-literal bound")
        if p.get("hi") and not p.get("incl"):
            hi -= 1
        return [(lo, hi)]
    if k == "Or":
        out = []
        for sp in p["pats"]:
            r = pat_ranges(sp)
            if r is None:
                return None
            out += r
        return out
    raise Anchor("unsupported pattern kind %s in table" % k)


def find_match(body_node, scrut_pred=None):
    """The first `match` (source Normal) in the body, optionally with a predicate on the scrutinee."""
    for n, _ in H.walk(body_node):
        if n.get("k") == "Match" and n.get("src") == "match":
            if scrut_pred is None or scrut_pred(n["scrut"]):
                return n
    raise Anchor("no match expression found")


def arms(match):
    """[(ranges|None, guard, body, arm)] in order."""
    out = []
    for a in match["arms"]:
        out.append((pat_ranges(a["pat"]), a.get("guard"), a["body"], a))
    return out


def diverges(body):
    b = hq.peel(body)
    return b.get("ty") == "!" or body.get("ty") == "!"


def check_partition(table, lo, hi):
    """table: [(ranges, ...)] non-default arms.  Returns (gaps, overlaps) within [lo, hi]."""
    ivs = []
    for ranges in table:
        ivs += ranges
    ivs.sort()
    gaps, overlaps = [], []
    cur = lo
    for a, b in ivs:
        if b < lo or a > hi:
            continue
        if a > cur:
            gaps.append((cur, a - 1))
        if a < cur:
            overlaps.append((a, min(b, cur - 1)))
        cur = max(cur, b + 1)
    if cur <= hi:
        gaps.append((cur, hi))
    return gaps, overlaps


def affine_in(node, var_pred, canon):
    """Affine form (coef, const) of `node` in the single variable recognised by var_pred(node);
    casts/from()/into() are transparent.  None if not affine."""
    n = hq.peel(node)
    if var_pred(n):
        return (1, 0)
    k = n.get("k")
    v = H.lit_val(n) if k in ("Lit", "Item") else None
    if isinstance(v, int) and not isinstance(v, bool):
        return (0, v)
    if k == "Cast":
        return affine_in(n["e"], var_pred, canon)
    if k == "Call" and H.strip_generics(H.callee(n) or "").split("::")[-1] == "from" and len(n["args"]) == 1:
        return affine_in(n["args"][0], var_pred, canon)
    if k == "MethodCall" and n["name"] == "into":
        return affine_in(n["recv"], var_pred, canon)
    if k == "Local":
        d = canon.defs.get(n["lid"])
        if d is not None and d[0] == "let" and not d[2] and not d[3]:
            return affine_in(d[1], var_pred, canon)
        return None
    if k == "Binary" and n["op"] in ("+", "-"):
        a, b = affine_in(n["l"], var_pred, canon), affine_in(n["r"], var_pred, canon)
        if a is None or b is None:
            return None
        s = 1 if n["op"] == "+" else -1
        return (a[0] + s * b[0], a[1] + s * b[1])
    if k == "Binary" and n["op"] == "*":
        a, b = affine_in(n["l"], var_pred, canon), affine_in(n["r"], var_pred, canon)
        if a is None or b is None:
            return None
        if a[0] == 0:
            return (b[0] * a[1], b[1] * a[1])
        if b[0] == 0:
            return (a[0] * b[1], a[1] * b[1])
        return None
    if k == "Binary" and n["op"] == "<<":
        a, b = affine_in(n["l"], var_pred, canon), affine_in(n["r"], var_pred, canon)
        if a is None or b is None or b[0] != 0:
            return None
        return (a[0] << b[1], a[1] << b[1])
    return None


def tuple_elems(node):
    n = hq.peel(node)
    if n.get("k") == "Tup":
        return n["elems"]
    return None


def is_param(node, idx_name):
    n = hq.peel(node)
    return n.get("k") == "Local" and n.get("name") == idx_name

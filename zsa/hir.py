"""HIR tree utilities: traversal, canonical printing, simple queries.

Nodes are the JSON dicts written by driver/src/hirdump.rs.  Every expression
node has k (kind), id, ty, sp=[lo,hi,line,col] and optionally mac (macro chain
where the node's expansion context differs from its parent's).
"""

import re

CHILD_KEYS = ("f", "recv", "e", "l", "r", "cond", "then", "else", "scrut", "body",
              "init", "iter", "idx", "base", "expr", "els", "guard")
LIST_KEYS = ("args", "elems", "stmts")


def children(n):
    """Yield (key, child) for every direct child expression/statement of n, in source order."""
    out = list(_children(n))
    if len(out) > 1:
        out.sort(key=lambda kc: (kc[1].get("sp") or kc[1].get("e", {}).get("sp") or [0])[0]
                 if not kc[1].get("mac") else (kc[1].get("sp") or [0])[0])
    return out


def _children(n):
    if not isinstance(n, dict):
        return
    k = n.get("k")
    for key in CHILD_KEYS:
        c = n.get(key)
        if isinstance(c, dict) and "k" in c:
            yield key, c
    for key in LIST_KEYS:
        for c in n.get(key) or ():
            if isinstance(c, dict):
                yield key, c
    if k == "Match":
        for a in n["arms"]:
            if a.get("guard"):
                yield "arm.guard", a["guard"]
            yield "arm.body", a["body"]
    if k == "StructLit":
        for f in n["fields"]:
            yield "field", f["e"]


def walk(n, parent=None):
    """Pre-order walk yielding (node, parent)."""
    stack = [(n, parent)]
    while stack:
        node, par = stack.pop()
        yield node, par
        ch = [c for _, c in children(node)]
        for c in reversed(ch):
            stack.append((c, node))


def short(path):
    """Last two segments of a def path, generic args stripped."""
    if path is None:
        return "?"
    p = strip_generics(path)
    segs = p.split("::")
    return "::".join(segs[-2:]) if len(segs) > 1 else p


_SG_CACHE = {}


def strip_generics(p):
    """Remove generic argument lists from a def path, keeping `<T as Trait>` / `<impl Trait for T>` heads
    (with their own generic arguments stripped)."""
    if p is None:
        return None
    r = _SG_CACHE.get(p)
    if r is not None:
        return r
    out = []
    i, n = 0, len(p)
    while i < n:
        ch = p[i]
        if ch == "<":
            # find matching '>'
            depth, j = 0, i
            while j < n:
                if p[j] == "<":
                    depth += 1
                elif p[j] == ">" and (j == 0 or p[j - 1] != "-"):
                    depth -= 1
                    if depth == 0:
                        break
                j += 1
            inner = p[i + 1:j]
            at_seg_start = (i == 0) or p[i - 2:i] == "::" and (inner.startswith("impl ") or " as " in inner) and \
                (len(out) == 0 or "".join(out).endswith("::"))
            if i == 0 or (inner.startswith("impl ") and "".join(out).endswith("::")):
                out.append("<" + strip_generics(inner) + ">")
            i = j + 1
            continue
        out.append(ch)
        i += 1
    r = "".join(out)
    while "::::" in r:
        r = r.replace("::::", "::")
    if r.endswith("::"):
        r = r[:-2]
    _SG_CACHE[p] = r
    return r


_CP_RE = re.compile(r"<impl [^<>]*>::")


def canon_path(p):
    """Path as printed in canonical expressions: generics stripped, `<impl ..>` segments dropped,
    `<T as Trait>::m` rendered as `Trait::m`."""
    r = strip_generics(p)
    if r is None:
        return None
    r = _CP_RE.sub("", r)
    if r.startswith("<") and " as " in r and ">::" in r:
        head, rest = r[1:].split(">::", 1)
        r = head.split(" as ", 1)[1] + "::" + rest
    return r


def lit_val(n):
    """Integer/bool value of a literal node (following unary minus and casts), else None."""
    if n is None:
        return None
    k = n.get("k")
    if k == "Lit":
        l = n["lit"]
        if "int" in l:
            return int(l["int"])
        if "bool" in l:
            return l["bool"]
        return None
    if k == "Unary" and n["op"] == "-":
        v = lit_val(n["e"])
        return -v if isinstance(v, int) else None
    if k == "Cast":
        return lit_val(n["e"])
    if k == "Item" and isinstance(n.get("val"), dict) and "int" in n["val"]:
        return int(n["val"]["int"])
    return None


def show_pat(p):
    k = p["k"]
    if k == "Wild":
        return "_"
    if k == "Bind":
        s = p["name"]
        if p.get("sub"):
            s += " @ " + show_pat(p["sub"])
        return s
    if k == "ExprPat":
        return show(p["e"])
    if k == "RangePat":
        lo = show(p["lo"]) if p.get("lo") else ""
        hi = show(p["hi"]) if p.get("hi") else ""
        return lo + ("..=" if p.get("incl") else "..") + hi
    if k == "Tuple":
        return "(" + ", ".join(show_pat(x) for x in p["pats"]) + ")"
    if k == "TupleStruct":
        return short(p["path"].get("path")) + "(" + ", ".join(show_pat(x) for x in p["pats"]) + ")"
    if k == "Struct":
        return short(p["path"].get("path")) + "{" + ", ".join(
            f["name"] + ": " + show_pat(f["pat"]) for f in p["fields"]) + "}"
    if k == "Or":
        return " | ".join(show_pat(x) for x in p["pats"])
    if k in ("RefPat", "DerefPat"):
        return "&" + show_pat(p["sub"])
    if k == "SlicePat":
        parts = [show_pat(x) for x in p["before"]]
        if p.get("mid"):
            parts.append(show_pat(p["mid"]) + "..")
        parts += [show_pat(x) for x in p["after"]]
        return "[" + ", ".join(parts) + "]"
    return k


PRETTY_RANGES = False


def show(n, depth=0):
    """Canonical one-line rendering with resolved (shortened) paths."""
    if n is None:
        return ""
    if depth > 40:
        return "…"
    d = depth + 1
    k = n.get("k")
    if k == "Lit":
        l = n["lit"]
        if "int" in l:
            return l["int"]
        if "bool" in l:
            return "true" if l["bool"] else "false"
        if "str" in l:
            return '"' + l["str"] + '"'
        if "char" in l:
            return "'" + l["char"] + "'"
        return "<lit>"
    if k == "Local":
        return n["name"]
    if k == "Item":
        return short(n.get("inst") or n["path"])
    if k == "Res":
        return n["res"]
    if k == "Call":
        return show(n["f"], d) + "(" + ", ".join(show(a, d) for a in n["args"]) + ")"
    if k == "MethodCall":
        return show(n["recv"], d) + "." + n["name"] + "(" + ", ".join(show(a, d) for a in n["args"]) + ")"
    if k == "Binary":
        return "(" + show(n["l"], d) + " " + n["op"] + " " + show(n["r"], d) + ")"
    if k == "Unary":
        return n["op"] + show(n["e"], d)
    if k == "Cast":
        return "(" + show(n["e"], d) + " as " + n["ty"] + ")"
    if k == "Field":
        return show(n["e"], d) + "." + n["name"]
    if k == "Index":
        return show(n["e"], d) + "[" + show(n["idx"], d) + "]"
    if k == "AddrOf":
        return ("&raw " if n.get("raw") else "&") + ("mut " if n.get("mut") else "") + show(n["e"], d)
    if k == "Tup":
        return "(" + ", ".join(show(a, d) for a in n["elems"]) + ")"
    if k == "Array":
        return "[" + ", ".join(show(a, d) for a in n["elems"]) + "]"
    if k == "Repeat":
        return "[" + show(n["e"], d) + "; _]"
    if k == "Assign":
        return show(n["l"], d) + " = " + show(n["r"], d)
    if k == "AssignOp":
        return show(n["l"], d) + " " + n["op"] + " " + show(n["r"], d)
    if k == "Try":
        return show(n["e"], d) + "?"
    if k == "Ret":
        return "return " + show(n.get("e"), d)
    if k == "Break":
        return "break " + show(n.get("e"), d)
    if k == "Continue":
        return "continue"
    if k == "If":
        s = "if " + show(n["cond"], d) + " " + show(n["then"], d)
        if n.get("else"):
            s += " else " + show(n["else"], d)
        return s
    if k == "Let":
        return "let " + show_pat(n["pat"]) + " = " + show(n["init"], d)
    if k == "Match":
        return "match " + show(n["scrut"], d) + " {" + ", ".join(
            show_pat(a["pat"]) + (" if " + show(a["guard"], d) if a.get("guard") else "") + " => " + show(a["body"], d)
            for a in n["arms"]) + "}"
    if k == "Block":
        parts = [show(s, d) for s in n["stmts"]]
        if n.get("expr"):
            parts.append(show(n["expr"], d))
        return ("unsafe " if n.get("unsafe") else "") + "{ " + "; ".join(parts) + " }"
    if k == "LetStmt":
        s = "let " + show_pat(n["pat"])
        if n.get("init"):
            s += " = " + show(n["init"], d)
        if n.get("els"):
            s += " else " + show(n["els"], d)
        return s
    if k == "ExprStmt":
        return show(n["e"], d)
    if k == "While":
        return "while " + show(n["cond"], d) + " " + show(n["body"], d)
    if k == "For":
        return "for " + show_pat(n["pat"]) + " in " + show(n["iter"], d) + " " + show(n["body"], d)
    if k == "Loop":
        return "loop " + show(n["body"], d)
    if k == "Closure":
        return "|" + ", ".join(show_pat(p) for p in n["params"]) + "| " + show(n["body"], d)
    if k == "StructLit" and "::range::Range" in (n["path"].get("path") or "") and depth >= 0 and PRETTY_RANGES:
        fs = {f["name"]: show(f["e"], d) for f in n["fields"]}
        return "%s..%s%s" % (fs.get("start", ""), "=" if "Inclusive" in n["path"]["path"] else "", fs.get("end", ""))
    if k == "StructLit":
        s = short(n["path"].get("path")) + " { " + ", ".join(f["name"] + ": " + show(f["e"], d) for f in n["fields"])
        if n.get("base"):
            s += ", .." + show(n["base"], d)
        return s + " }"
    return "<" + str(k) + ">"


def loc(body, n):
    sp = n.get("sp") or [0, 0, 0, 0]
    return "%s:%d" % (body.get("file", "?"), sp[2])


def callee(n):
    """Resolved callee path of a Call/MethodCall node (instance if resolved)."""
    if n.get("k") == "MethodCall":
        return n.get("inst") or n.get("callee")
    if n.get("k") == "Call" and n["f"].get("k") == "Item":
        return n["f"].get("inst") or n["f"].get("path")
    return None


def callee_decl(n):
    """Declared (trait-level) callee path."""
    if n.get("k") == "MethodCall":
        return n.get("callee")
    if n.get("k") == "Call" and n["f"].get("k") == "Item":
        return n["f"].get("path")
    return None

//! zsa-driver: a property-agnostic fact extractor.
//!
//! Runs as `RUSTC_WORKSPACE_WRAPPER` under `cargo +nightly check`; after
//! analysis it writes one JSON file per (crate, configuration tag) with items,
//! HIR trees (resolved paths, types, macro origin) and MIR bodies.
#![feature(rustc_private)]
#![allow(clippy::all)]

extern crate rustc_abi;
extern crate rustc_ast;
extern crate rustc_data_structures;
extern crate rustc_driver;
extern crate rustc_hir;
extern crate rustc_index;
extern crate rustc_interface;
extern crate rustc_middle;
extern crate rustc_session;
extern crate rustc_span;

#[macro_use]
mod json;
mod hirdump;
mod items;
mod mirdump;

use json::Js;
use rustc_hir::def_id::{DefId, LOCAL_CRATE};
use rustc_middle::ty::print::{with_no_trimmed_paths, with_no_visible_paths, with_resolve_crate_name};
use rustc_middle::ty::{Ty, TyCtxt};
use rustc_span::Span;

pub struct Cx<'tcx> {
    pub tcx: TyCtxt<'tcx>,
    pub krate: String,
}

impl<'tcx> Cx<'tcx> {
    /// Canonical definition path, crate-qualified, independent of `use`s.
    pub fn path(&self, did: DefId) -> String {
        with_resolve_crate_name!(with_no_visible_paths!(with_no_trimmed_paths!(
            self.tcx.def_path_str(did)
        )))
    }
    pub fn ty(&self, ty: Ty<'tcx>) -> String {
        with_resolve_crate_name!(with_no_visible_paths!(with_no_trimmed_paths!(ty.to_string())))
    }
    /// [lo, hi, line, col] — lo/hi are raw byte positions (join key between HIR
    /// and MIR), line/col locate the outermost call site in user code.
    pub fn span(&self, sp: Span) -> Js {
        let sm = self.tcx.sess.source_map();
        let cs = sp.source_callsite();
        let loc = sm.lookup_char_pos(cs.lo());
        Js::Arr(vec![
            Js::n(sp.lo().0),
            Js::n(sp.hi().0),
            Js::n(loc.line as u32),
            Js::n(loc.col.0 as u32 + 1),
        ])
    }
    pub fn file_of(&self, sp: Span) -> String {
        let sm = self.tcx.sess.source_map();
        let cs = sp.source_callsite();
        let loc = sm.lookup_char_pos(cs.lo());
        format!("{}", loc.file.name.prefer_local_unconditionally())
    }
    /// Macro chain a span originates from, outermost first ("assert>panic").
    pub fn mac(&self, sp: Span) -> Option<String> {
        if !sp.from_expansion() {
            return None;
        }
        let mut names: Vec<String> = Vec::new();
        let mut cur = sp;
        let mut guard = 0;
        while cur.from_expansion() && guard < 64 {
            let data = cur.ctxt().outer_expn_data();
            match data.kind {
                rustc_span::ExpnKind::Macro(_, name) => names.push(name.to_string()),
                _ => {}
            }
            cur = data.call_site;
            guard += 1;
        }
        if names.is_empty() {
            return None;
        }
        names.reverse();
        Some(names.join(">"))
    }
}

struct Cb;

impl rustc_driver::Callbacks for Cb {
    fn after_analysis<'tcx>(
        &mut self,
        _compiler: &rustc_interface::interface::Compiler,
        tcx: TyCtxt<'tcx>,
    ) -> rustc_driver::Compilation {
        let krate = tcx.crate_name(LOCAL_CRATE).to_string();
        let wanted = std::env::var("ZSA_CRATES").unwrap_or_else(|_| "ruzstd,ruzstd_cli".into());
        if !wanted.split(',').any(|c| c == krate) {
            return rustc_driver::Compilation::Continue;
        }
        if tcx.sess.is_test_crate() && std::env::var("ZSA_TESTS").is_err() {
            return rustc_driver::Compilation::Continue;
        }
        let out_dir = match std::env::var("ZSA_OUT") {
            Ok(d) => d,
            Err(_) => return rustc_driver::Compilation::Continue,
        };
        let tag = std::env::var("ZSA_TAG").unwrap_or_else(|_| "default".into());
        let nonce = std::env::var("ZSA_NONCE").unwrap_or_default();
        let cx = Cx { tcx, krate: krate.clone() };

        let items = items::dump_items(&cx);
        let hir = hirdump::dump_bodies(&cx);
        let mir = mirdump::dump_mir(&cx);
        let cfg: Vec<Js> = {
            let mut v: Vec<String> = tcx
                .sess
                .config
                .iter()
                .filter_map(|(k, val)| {
                    let k = k.to_string();
                    if k == "feature" {
                        val.map(|v| format!("feature={}", v))
                    } else if k == "debug_assertions" || k == "test" {
                        Some(k)
                    } else {
                        None
                    }
                })
                .collect();
            v.sort();
            v.into_iter().map(Js::s).collect()
        };
        let root = obj! {
            "crate": Js::s(krate.clone()),
            "tag": Js::s(tag.clone()),
            "nonce": Js::s(nonce),
            "cfg": Js::Arr(cfg),
            "opt_level": Js::s(format!("{:?}", tcx.sess.opts.optimize)),
            "items": items,
            "hir": hir,
            "mir": mir,
        };
        let mut s = String::with_capacity(1 << 24);
        root.write(&mut s);
        let kind = if tcx.sess.is_test_crate() { ".test" } else { "" };
        let path = format!("{}/{}.{}{}.json", out_dir, krate, tag, kind);
        let tmp = format!("{}.tmp{}", path, std::process::id());
        std::fs::write(&tmp, s).expect("zsa-driver: cannot write facts");
        std::fs::rename(&tmp, &path).expect("zsa-driver: cannot rename facts");
        rustc_driver::Compilation::Continue
    }
}

fn main() {
    let mut args: Vec<String> = std::env::args().collect();
    // As RUSTC_WORKSPACE_WRAPPER we are called as `driver <rustc> <args..>`.
    if args.len() > 1 && (args[1].ends_with("rustc") || args[1].contains("/rustc")) {
        args.remove(1);
    }
    rustc_driver::run_compiler(&args, &mut Cb);
}

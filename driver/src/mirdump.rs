//! MIR bodies (optimized_mir at -Zmir-opt-level=0) as structured JSON.

use crate::json::Js;
use crate::Cx;
use rustc_hir::def::DefKind;
use rustc_middle::mir::{self, *};
use rustc_middle::ty::{self, Ty};

struct Mx<'a, 'tcx> {
    cx: &'a Cx<'tcx>,
    body: &'a Body<'tcx>,
    owner: rustc_hir::def_id::DefId,
}

pub fn dump_mir<'tcx>(cx: &Cx<'tcx>) -> Js {
    let tcx = cx.tcx;
    let mut out = Vec::new();
    for did in tcx.hir_body_owners() {
        let kind = tcx.def_kind(did);
        match kind {
            DefKind::Fn | DefKind::AssocFn | DefKind::Closure => {}
            _ => continue,
        }
        if !tcx.is_mir_available(did.to_def_id()) {
            continue;
        }
        let body = tcx.optimized_mir(did.to_def_id());
        let mx = Mx { cx, body, owner: did.to_def_id() };
        out.push(mx.body_js(kind));
    }
    Js::Arr(out)
}

impl<'a, 'tcx> Mx<'a, 'tcx> {
    fn body_js(&self, kind: DefKind) -> Js {
        let body = self.body;
        let mut names: Vec<Option<String>> = vec![None; body.local_decls.len()];
        for vdi in &body.var_debug_info {
            if let VarDebugInfoContents::Place(p) = &vdi.value {
                if p.projection.is_empty() {
                    names[p.local.as_usize()] = Some(vdi.name.to_string());
                }
            }
        }
        let locals: Vec<Js> = body
            .local_decls
            .iter_enumerated()
            .map(|(l, d)| {
                obj! {
                    "ty": Js::s(self.cx.ty(d.ty)),
                    "name": Js::opt(names[l.as_usize()].clone().map(Js::s)),
                }
            })
            .collect();
        let blocks: Vec<Js> = body
            .basic_blocks
            .iter()
            .map(|bb| {
                let stmts: Vec<Js> = bb.statements.iter().filter_map(|s| self.stmt(s)).collect();
                obj! {
                    "stmts": Js::Arr(stmts),
                    "term": self.term(bb.terminator()),
                    "cleanup": if bb.is_cleanup { Js::Bool(true) } else { Js::Null },
                }
            })
            .collect();
        obj! {
            "path": Js::s(self.cx.path(self.owner)),
            "kind": Js::s(format!("{:?}", kind)),
            "file": Js::s(self.cx.file_of(body.span)),
            "sp": self.cx.span(body.span),
            "argc": Js::n(body.arg_count as u32),
            "locals": Js::Arr(locals),
            "blocks": Js::Arr(blocks),
        }
    }

    fn sp(&self, si: &SourceInfo) -> Js {
        self.cx.span(si.span)
    }

    fn place(&self, p: &Place<'tcx>) -> Js {
        let tcx = self.cx.tcx;
        let mut proj = Vec::new();
        for (base, elem) in p.iter_projections() {
            let bty = base.ty(self.body, tcx);
            match elem {
                ProjectionElem::Deref => proj.push(Js::s("*")),
                ProjectionElem::Field(f, _) => {
                    let name = match bty.ty.kind() {
                        ty::Adt(adt, _) => {
                            let vi = bty.variant_index.unwrap_or(rustc_abi::FIRST_VARIANT);
                            let v = adt.variant(vi);
                            let fd = &v.fields[f];
                            let owner = if adt.is_enum() {
                                format!("{}::{}", self.cx.path(adt.did()), v.name)
                            } else {
                                self.cx.path(adt.did())
                            };
                            format!("{}.{}", owner, fd.name)
                        }
                        _ => format!(".{}", f.as_usize()),
                    };
                    proj.push(obj! { "f": Js::s(name) });
                }
                ProjectionElem::Index(l) => proj.push(obj! { "idx": Js::n(l.as_u32()) }),
                ProjectionElem::ConstantIndex { offset, from_end, .. } => {
                    proj.push(obj! { "cidx": Js::n(offset as i128), "from_end": Js::Bool(from_end) })
                }
                ProjectionElem::Subslice { from, to, from_end } => proj.push(
                    obj! { "sub": Js::Arr(vec![Js::n(from as i128), Js::n(to as i128)]), "from_end": Js::Bool(from_end) },
                ),
                ProjectionElem::Downcast(name, _) => {
                    proj.push(obj! { "dc": Js::s(name.map(|n| n.to_string()).unwrap_or_default()) })
                }
                _ => proj.push(Js::s("?")),
            }
        }
        obj! { "l": Js::n(p.local.as_u32()), "p": if proj.is_empty() { Js::Null } else { Js::Arr(proj) } }
    }

    fn const_js(&self, c: &ConstOperand<'tcx>) -> Js {
        let tcx = self.cx.tcx;
        let ty = c.const_.ty();
        let mut v: Vec<(&'static str, Js)> = vec![("ty", Js::s(self.cx.ty(ty)))];
        if let ty::FnDef(did, args) = ty.kind() {
            v.push(("fn", Js::s(self.cx.path(*did))));
            let env = ty::TypingEnv::post_analysis(tcx, self.owner);
            if args.len() == tcx.generics_of(*did).count() {
                if let Ok(Some(inst)) = ty::Instance::try_resolve(tcx, env, *did, args) {
                    if inst.def_id() != *did {
                        v.push(("inst", Js::s(self.cx.path(inst.def_id()))));
                    }
                }
            }
            return Js::Obj(v);
        }
        // Named constant?
        if let mir::Const::Unevaluated(uv, _) = c.const_ {
            v.push(("def", Js::s(self.cx.path(uv.def))));
        }
        let env = ty::TypingEnv::post_analysis(tcx, self.owner);
        if ty.is_integral() || ty.is_bool() || ty.is_char() {
            if let Some(si) = c.const_.try_eval_scalar_int(tcx, env) {
                let size = si.size();
                let val: i128 = if ty.is_signed() { si.to_int(size) } else { si.to_bits(size) as i128 };
                v.push(("int", Js::Str(val.to_string())));
            }
        } else {
            let s = format!("{}", c.const_);
            if s.len() < 200 {
                v.push(("repr", Js::s(s)));
            }
        }
        Js::Obj(v)
    }

    fn operand(&self, o: &Operand<'tcx>) -> Js {
        match o {
            Operand::Copy(p) => obj! { "c": self.place(p) },
            Operand::Move(p) => obj! { "m": self.place(p) },
            Operand::Constant(c) => obj! { "k": self.const_js(c) },
            _ => obj! { "rt": Js::s(format!("{:?}", o)) },
        }
    }

    fn tystr(&self, t: Ty<'tcx>) -> Js {
        Js::s(self.cx.ty(t))
    }

    fn rvalue(&self, rv: &Rvalue<'tcx>) -> Js {
        match rv {
            Rvalue::Use(o, _) => obj! { "k": Js::s("Use"), "o": self.operand(o) },
            Rvalue::Repeat(o, n) => {
                obj! { "k": Js::s("Repeat"), "o": self.operand(o), "n": Js::s(format!("{}", n)) }
            }
            Rvalue::Ref(_, bk, p) => obj! {
                "k": Js::s("Ref"),
                "mut": Js::Bool(matches!(bk, BorrowKind::Mut { .. })),
                "p": self.place(p),
            },
            Rvalue::ThreadLocalRef(d) => obj! { "k": Js::s("ThreadLocalRef"), "def": Js::s(self.cx.path(*d)) },
            Rvalue::RawPtr(k, p) => obj! {
                "k": Js::s("RawPtr"),
                "mut": Js::Bool(matches!(k, RawPtrKind::Mut)),
                "p": self.place(p),
            },
            Rvalue::Cast(ck, o, t) => obj! {
                "k": Js::s("Cast"),
                "ck": Js::s(format!("{:?}", ck)),
                "o": self.operand(o),
                "ty": self.tystr(*t),
            },
            Rvalue::BinaryOp(op, ab) => obj! {
                "k": Js::s("BinaryOp"),
                "op": Js::s(format!("{:?}", op)),
                "a": self.operand(&ab.0),
                "b": self.operand(&ab.1),
            },
            Rvalue::UnaryOp(op, o) => obj! {
                "k": Js::s("UnaryOp"),
                "op": Js::s(format!("{:?}", op)),
                "o": self.operand(o),
            },
            Rvalue::Discriminant(p) => obj! { "k": Js::s("Discriminant"), "p": self.place(p) },
            Rvalue::Aggregate(ak, ops) => {
                let (kind, def, variant) = match &**ak {
                    AggregateKind::Array(_) => ("Array", None, None),
                    AggregateKind::Tuple => ("Tuple", None, None),
                    AggregateKind::Adt(did, vi, _, _, _) => {
                        let adt = self.cx.tcx.adt_def(*did);
                        let v = adt.variant(*vi);
                        ("Adt", Some(self.cx.path(*did)), Some(v.name.to_string()))
                    }
                    AggregateKind::Closure(did, _) => ("Closure", Some(self.cx.path(*did)), None),
                    AggregateKind::RawPtr(..) => ("RawPtrAgg", None, None),
                    _ => ("Other", None, None),
                };
                let fields: Option<Vec<Js>> = match &**ak {
                    AggregateKind::Adt(did, vi, _, _, _) => {
                        let adt = self.cx.tcx.adt_def(*did);
                        let v = adt.variant(*vi);
                        Some(v.fields.iter().map(|f| Js::s(f.name.to_string())).collect())
                    }
                    _ => None,
                };
                obj! {
                    "k": Js::s("Aggregate"),
                    "ak": Js::s(kind),
                    "def": Js::opt(def.map(Js::s)),
                    "variant": Js::opt(variant.map(Js::s)),
                    "fields": Js::opt(fields.map(Js::Arr)),
                    "ops": Js::Arr(ops.iter().map(|o| self.operand(o)).collect()),
                }
            }
            Rvalue::CopyForDeref(p) => obj! { "k": Js::s("CopyForDeref"), "p": self.place(p) },
            _ => obj! { "k": Js::s("Other"), "repr": Js::s(format!("{:?}", rv)) },
        }
    }

    fn stmt(&self, s: &Statement<'tcx>) -> Option<Js> {
        match &s.kind {
            StatementKind::Assign(b) => {
                let (p, rv) = &**b;
                Some(obj! {
                    "k": Js::s("Assign"),
                    "p": self.place(p),
                    "rv": self.rvalue(rv),
                    "sp": self.sp(&s.source_info),
                })
            }
            StatementKind::SetDiscriminant { place, variant_index } => Some(obj! {
                "k": Js::s("SetDiscriminant"),
                "p": self.place(place),
                "variant": Js::n(variant_index.as_u32()),
                "sp": self.sp(&s.source_info),
            }),
            StatementKind::Intrinsic(i) => Some(obj! {
                "k": Js::s("Intrinsic"),
                "repr": Js::s(format!("{:?}", i)),
                "sp": self.sp(&s.source_info),
            }),
            _ => None,
        }
    }

    fn unwind(&self, u: &UnwindAction) -> Js {
        match u {
            UnwindAction::Cleanup(bb) => Js::n(bb.as_u32()),
            _ => Js::Null,
        }
    }

    fn term(&self, t: &Terminator<'tcx>) -> Js {
        let sp = self.sp(&t.source_info);
        match &t.kind {
            TerminatorKind::Goto { target } => {
                obj! { "k": Js::s("Goto"), "t": Js::n(target.as_u32()), "sp": sp }
            }
            TerminatorKind::SwitchInt { discr, targets } => {
                let ts: Vec<Js> = targets
                    .iter()
                    .map(|(v, bb)| Js::Arr(vec![Js::Str(v.to_string()), Js::n(bb.as_u32())]))
                    .collect();
                obj! {
                    "k": Js::s("SwitchInt"),
                    "discr": self.operand(discr),
                    "targets": Js::Arr(ts),
                    "otherwise": Js::n(targets.otherwise().as_u32()),
                    "sp": sp,
                }
            }
            TerminatorKind::UnwindResume => obj! { "k": Js::s("UnwindResume"), "sp": sp },
            TerminatorKind::UnwindTerminate(_) => obj! { "k": Js::s("UnwindTerminate"), "sp": sp },
            TerminatorKind::Return => obj! { "k": Js::s("Return"), "sp": sp },
            TerminatorKind::Unreachable => obj! { "k": Js::s("Unreachable"), "sp": sp },
            TerminatorKind::Drop { place, target, unwind, .. } => obj! {
                "k": Js::s("Drop"),
                "p": self.place(place),
                "pty": self.tystr(place.ty(self.body, self.cx.tcx).ty),
                "t": Js::n(target.as_u32()),
                "unwind": self.unwind(unwind),
                "sp": sp,
            },
            TerminatorKind::Call { func, args, destination, target, unwind, fn_span, .. } => {
                obj! {
                    "k": Js::s("Call"),
                    "func": self.operand(func),
                    "args": Js::Arr(args.iter().map(|a| self.operand(&a.node)).collect()),
                    "dest": self.place(destination),
                    "t": Js::opt(target.map(|b| Js::n(b.as_u32()))),
                    "unwind": self.unwind(unwind),
                    "sp": sp,
                    "fsp": self.cx.span(*fn_span),
                    "mac": Js::opt(self.cx.mac(t.source_info.span).map(Js::s)),
                }
            }
            TerminatorKind::TailCall { func, args, .. } => obj! {
                "k": Js::s("TailCall"),
                "func": self.operand(func),
                "args": Js::Arr(args.iter().map(|a| self.operand(&a.node)).collect()),
                "sp": sp,
            },
            TerminatorKind::Assert { cond, expected, msg, target, unwind } => {
                let (mk, ops): (&str, Vec<Js>) = match &**msg {
                    AssertKind::BoundsCheck { len, index } => {
                        ("BoundsCheck", vec![self.operand(len), self.operand(index)])
                    }
                    AssertKind::Overflow(op, a, b) => {
                        let _ = op;
                        ("Overflow", vec![self.operand(a), self.operand(b)])
                    }
                    AssertKind::OverflowNeg(a) => ("OverflowNeg", vec![self.operand(a)]),
                    AssertKind::DivisionByZero(a) => ("DivisionByZero", vec![self.operand(a)]),
                    AssertKind::RemainderByZero(a) => ("RemainderByZero", vec![self.operand(a)]),
                    AssertKind::MisalignedPointerDereference { .. } => ("Misaligned", vec![]),
                    AssertKind::NullPointerDereference => ("NullDeref", vec![]),
                    _ => ("Other", vec![]),
                };
                let op = match &**msg {
                    AssertKind::Overflow(op, _, _) => Some(format!("{:?}", op)),
                    _ => None,
                };
                obj! {
                    "k": Js::s("Assert"),
                    "cond": self.operand(cond),
                    "expected": Js::Bool(*expected),
                    "msg": Js::s(mk),
                    "op": Js::opt(op.map(Js::s)),
                    "ops": Js::Arr(ops),
                    "t": Js::n(target.as_u32()),
                    "unwind": self.unwind(unwind),
                    "sp": sp,
                }
            }
            TerminatorKind::FalseEdge { real_target, .. } => {
                obj! { "k": Js::s("Goto"), "t": Js::n(real_target.as_u32()), "sp": sp }
            }
            TerminatorKind::FalseUnwind { real_target, .. } => {
                obj! { "k": Js::s("Goto"), "t": Js::n(real_target.as_u32()), "sp": sp }
            }
            other => obj! { "k": Js::s("OtherTerm"), "repr": Js::s(format!("{:?}", other)), "sp": sp },
        }
    }
}

//! Minimal JSON value + serializer (the driver has zero cargo dependencies).

pub enum Js {
    Null,
    Bool(bool),
    Num(i128),
    Str(String),
    Arr(Vec<Js>),
    Obj(Vec<(&'static str, Js)>),
}

impl Js {
    pub fn s<S: Into<String>>(s: S) -> Js {
        Js::Str(s.into())
    }
    pub fn n<N: Into<i128>>(n: N) -> Js {
        Js::Num(n.into())
    }
    pub fn opt(o: Option<Js>) -> Js {
        o.unwrap_or(Js::Null)
    }
    pub fn write(&self, out: &mut String) {
        match self {
            Js::Null => out.push_str("null"),
            Js::Bool(b) => out.push_str(if *b { "true" } else { "false" }),
            Js::Num(n) => out.push_str(&n.to_string()),
            Js::Str(s) => write_str(s, out),
            Js::Arr(v) => {
                out.push('[');
                for (i, x) in v.iter().enumerate() {
                    if i > 0 {
                        out.push(',');
                    }
                    x.write(out);
                }
                out.push(']');
            }
            Js::Obj(v) => {
                out.push('{');
                let mut first = true;
                for (k, x) in v.iter() {
                    if let Js::Null = x {
                        continue;
                    }
                    if !first {
                        out.push(',');
                    }
                    first = false;
                    write_str(k, out);
                    out.push(':');
                    x.write(out);
                }
                out.push('}');
            }
        }
    }
}

fn write_str(s: &str, out: &mut String) {
    out.push('"');
    for c in s.chars() {
        match c {
            '"' => out.push_str("\\\""),
            '\\' => out.push_str("\\\\"),
            '\n' => out.push_str("\\n"),
            '\r' => out.push_str("\\r"),
            '\t' => out.push_str("\\t"),
            c if (c as u32) < 0x20 => out.push_str(&format!("\\u{:04x}", c as u32)),
            c => out.push(c),
        }
    }
    out.push('"');
}

#[macro_export]
macro_rules! obj {
    ($($k:literal : $v:expr),* $(,)?) => {
        $crate::json::Js::Obj(vec![$(($k, $v)),*])
    };
}

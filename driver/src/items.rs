//! Item facts: ADTs with fields, consts with evaluated values, fns, impls.

use crate::json::Js;
use crate::Cx;
use rustc_hir::def::DefKind;
use rustc_hir::def_id::LocalDefId;
use rustc_middle::mir::ConstValue;
use rustc_middle::ty;

fn vis_str(cx: &Cx<'_>, did: LocalDefId) -> String {
    match cx.tcx.visibility(did.to_def_id()) {
        ty::Visibility::Public => "pub".to_string(),
        ty::Visibility::Restricted(m) => {
            if m.is_crate_root() {
                "crate".to_string()
            } else {
                format!("in {}", cx.path(m))
            }
        }
    }
}

fn eff_vis(cx: &Cx<'_>, did: LocalDefId) -> Js {
    let ev = cx.tcx.effective_visibilities(());
    obj! {
        "reachable": Js::Bool(ev.is_reachable(did)),
        "exported": Js::Bool(ev.is_exported(did)),
        "direct": Js::Bool(ev.is_directly_public(did)),
    }
}

pub fn const_value<'tcx>(cx: &Cx<'tcx>, did: LocalDefId) -> Js {
    let tcx = cx.tcx;
    let generics = tcx.generics_of(did);
    if generics.count() != 0 || generics.parent_count != 0 {
        return Js::Null;
    }
    let ty = tcx.type_of(did).instantiate_identity().skip_norm_wip();
    let val = match tcx.const_eval_poly(did.to_def_id()) {
        Ok(v) => v,
        Err(_) => return Js::Null,
    };
    match val {
        ConstValue::Scalar(rustc_middle::mir::interpret::Scalar::Int(i)) => {
            let size = i.size();
            let bits = i.to_bits(size);
            let signed = matches!(ty.kind(), ty::Int(_));
            let v: i128 = if signed { i.to_int(size) } else { bits as i128 };
            obj! { "int": Js::Str(v.to_string()), "bytes": Js::n(size.bytes() as u32) }
        }
        ConstValue::Indirect { alloc_id, offset } => {
            // Arrays / structs of plain data: dump the raw bytes.
            let alloc = match tcx.global_alloc(alloc_id) {
                rustc_middle::mir::interpret::GlobalAlloc::Memory(m) => m,
                _ => return Js::Null,
            };
            let alloc = alloc.inner();
            if !alloc.provenance().ptrs().is_empty() {
                return Js::Null;
            }
            let len = alloc.len();
            let off = offset.bytes() as usize;
            if len > (1 << 16) {
                return Js::Null;
            }
            let bytes = alloc.inspect_with_uninit_and_ptr_outside_interpreter(off..len);
            let mut hex = String::with_capacity(bytes.len() * 2);
            for b in bytes {
                hex.push_str(&format!("{:02x}", b));
            }
            obj! { "hex": Js::Str(hex) }
        }
        _ => Js::Null,
    }
}

pub fn dump_items<'tcx>(cx: &Cx<'tcx>) -> Js {
    let tcx = cx.tcx;
    let mut adts = Vec::new();
    let mut consts = Vec::new();
    let mut fns = Vec::new();
    let mut impls = Vec::new();
    let mut traits = Vec::new();
    let mut mods = Vec::new();
    for did in tcx.hir_crate_items(()).definitions() {
        let kind = tcx.def_kind(did);
        let sp = tcx.def_span(did);
        match kind {
            DefKind::Struct | DefKind::Enum | DefKind::Union => {
                let adt = tcx.adt_def(did);
                let mut variants = Vec::new();
                for v in adt.variants() {
                    let mut fields = Vec::new();
                    for f in v.fields.iter() {
                        let fty = tcx.type_of(f.did).instantiate_identity().skip_norm_wip();
                        let fvis = match f.did.as_local() {
                            Some(l) => vis_str(cx, l),
                            None => "?".into(),
                        };
                        let fev = match f.did.as_local() {
                            Some(l) => eff_vis(cx, l),
                            None => Js::Null,
                        };
                        fields.push(obj! {
                            "name": Js::s(f.name.to_string()),
                            "ty": Js::s(cx.ty(fty)),
                            "vis": Js::s(fvis),
                            "eff": fev,
                        });
                    }
                    variants.push(obj! {
                        "name": Js::s(v.name.to_string()),
                        "fields": Js::Arr(fields),
                    });
                }
                adts.push(obj! {
                    "path": Js::s(cx.path(did.to_def_id())),
                    "kind": Js::s(format!("{:?}", kind)),
                    "vis": Js::s(vis_str(cx, did)),
                    "eff": eff_vis(cx, did),
                    "variants": Js::Arr(variants),
                    "file": Js::s(cx.file_of(sp)),
                    "sp": cx.span(sp),
                });
            }
            DefKind::Const { .. } | DefKind::AssocConst { .. } | DefKind::Static { .. } => {
                let ty = tcx.type_of(did).instantiate_identity().skip_norm_wip();
                let val = if matches!(kind, DefKind::Static { .. }) {
                    Js::Null
                } else {
                    const_value(cx, did)
                };
                consts.push(obj! {
                    "path": Js::s(cx.path(did.to_def_id())),
                    "kind": Js::s(format!("{:?}", kind)),
                    "ty": Js::s(cx.ty(ty)),
                    "vis": Js::s(vis_str(cx, did)),
                    "eff": eff_vis(cx, did),
                    "val": val,
                    "file": Js::s(cx.file_of(sp)),
                    "sp": cx.span(sp),
                });
            }
            DefKind::Fn | DefKind::AssocFn => {
                let sig = tcx.fn_sig(did).instantiate_identity().skip_norm_wip();
                let sig = sig.skip_binder();
                let inputs: Vec<Js> = sig.inputs().iter().map(|t| Js::s(cx.ty(*t))).collect();
                let parent = tcx.parent(did.to_def_id());
                let pk = tcx.def_kind(parent);
                let (impl_of, trait_of) = match pk {
                    DefKind::Impl { .. } => {
                        let self_ty = tcx.type_of(parent).instantiate_identity().skip_norm_wip();
                        let tr = tcx
                            .impl_opt_trait_ref(parent)
                            .map(|t| cx.path(t.skip_binder().def_id));
                        (Some(cx.ty(self_ty)), tr)
                    }
                    DefKind::Trait => (None, Some(cx.path(parent))),
                    _ => (None, None),
                };
                let has_body = tcx.hir_maybe_body_owned_by(did).is_some();
                fns.push(obj! {
                    "path": Js::s(cx.path(did.to_def_id())),
                    "name": Js::s(tcx.item_name(did.to_def_id()).to_string()),
                    "vis": Js::s(vis_str(cx, did)),
                    "eff": eff_vis(cx, did),
                    "unsafe": Js::Bool(sig.safety().is_unsafe()),
                    "inputs": Js::Arr(inputs),
                    "output": Js::s(cx.ty(sig.output())),
                    "self_ty": Js::opt(impl_of.map(Js::s)),
                    "trait": Js::opt(trait_of.map(Js::s)),
                    "in_trait_decl": Js::Bool(matches!(pk, DefKind::Trait)),
                    "has_body": Js::Bool(has_body),
                    "generic": Js::Bool(tcx.generics_of(did).count() != 0),
                    "file": Js::s(cx.file_of(sp)),
                    "sp": cx.span(sp),
                });
            }
            DefKind::Impl { .. } => {
                let self_ty = tcx.type_of(did).instantiate_identity().skip_norm_wip();
                let tr = tcx
                    .impl_opt_trait_ref(did.to_def_id())
                    .map(|t| cx.path(t.skip_binder().def_id));
                let items: Vec<Js> = tcx
                    .associated_item_def_ids(did.to_def_id())
                    .iter()
                    .map(|d| Js::s(cx.path(*d)))
                    .collect();
                let unsafety = match tcx.impl_opt_trait_ref(did.to_def_id()) {
                    Some(_) => tcx.impl_trait_header(did.to_def_id()).safety.is_unsafe(),
                    None => false,
                };
                impls.push(obj! {
                    "path": Js::s(cx.path(did.to_def_id())),
                    "self_ty": Js::s(cx.ty(self_ty)),
                    "trait": Js::opt(tr.map(Js::s)),
                    "unsafe": Js::Bool(unsafety),
                    "items": Js::Arr(items),
                    "mac": Js::opt(cx.mac(sp).map(Js::s)),
                    "file": Js::s(cx.file_of(sp)),
                    "sp": cx.span(sp),
                });
            }
            DefKind::Trait => {
                let items: Vec<Js> = tcx
                    .associated_item_def_ids(did.to_def_id())
                    .iter()
                    .map(|d| Js::s(cx.path(*d)))
                    .collect();
                traits.push(obj! {
                    "path": Js::s(cx.path(did.to_def_id())),
                    "vis": Js::s(vis_str(cx, did)),
                    "eff": eff_vis(cx, did),
                    "items": Js::Arr(items),
                });
            }
            DefKind::Mod => {
                mods.push(obj! {
                    "path": Js::s(cx.path(did.to_def_id())),
                    "vis": Js::s(vis_str(cx, did)),
                    "eff": eff_vis(cx, did),
                });
            }
            _ => {}
        }
    }
    obj! {
        "adts": Js::Arr(adts),
        "consts": Js::Arr(consts),
        "fns": Js::Arr(fns),
        "impls": Js::Arr(impls),
        "traits": Js::Arr(traits),
        "mods": Js::Arr(mods),
    }
}

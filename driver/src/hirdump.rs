//! HIR expression trees with resolved paths, types, macro origin.
//! Light re-sugaring: `?` -> Try, `for` -> For, `while` -> While, DropTemps removed.

use crate::json::Js;
use crate::Cx;
use rustc_ast::ast::LitKind;
use rustc_hir as hir;
use rustc_hir::def::{DefKind, Res};
use rustc_hir::def_id::{DefId, LocalDefId};
use rustc_middle::ty::{self, GenericArgsRef, TypeckResults};

pub struct Bx<'a, 'tcx> {
    cx: &'a Cx<'tcx>,
    tr: &'tcx TypeckResults<'tcx>,
    owner: LocalDefId,
}

pub fn dump_bodies<'tcx>(cx: &Cx<'tcx>) -> Js {
    let tcx = cx.tcx;
    let mut out = Vec::new();
    for did in tcx.hir_body_owners() {
        let kind = tcx.def_kind(did);
        match kind {
            DefKind::Closure | DefKind::AnonConst | DefKind::InlineConst => continue,
            _ => {}
        }
        let body = match tcx.hir_maybe_body_owned_by(did) {
            Some(b) => b,
            None => continue,
        };
        let tr = tcx.typeck(did);
        let bx = Bx { cx, tr, owner: did };
        let sp = tcx.def_span(did);
        let params: Vec<Js> = body.params.iter().map(|p| bx.pat(p.pat)).collect();
        out.push(obj! {
            "path": Js::s(cx.path(did.to_def_id())),
            "kind": Js::s(format!("{:?}", kind)),
            "file": Js::s(cx.file_of(sp)),
            "sp": cx.span(body.value.span),
            "mac": Js::opt(cx.mac(sp).map(Js::s)),
            "params": Js::Arr(params),
            "body": bx.expr(body.value, &None),
        });
    }
    Js::Arr(out)
}

fn lit_js(l: &hir::Lit, neg: bool) -> Js {
    match l.node {
        LitKind::Int(v, _) => {
            let v = v.get() as i128;
            obj! { "int": Js::Str((if neg { -v } else { v }).to_string()) }
        }
        LitKind::Bool(b) => obj! { "bool": Js::Bool(b) },
        LitKind::Str(s, _) => obj! { "str": Js::s(s.to_string()) },
        LitKind::Byte(b) => obj! { "int": Js::Str((b as i128).to_string()), "byte": Js::Bool(true) },
        LitKind::Char(c) => obj! { "char": Js::s(c.to_string()) },
        LitKind::ByteStr(ref b, _) => {
            let bytes: Vec<Js> = b.as_byte_str().iter().map(|x| Js::n(*x)).collect();
            obj! { "bytes": Js::Arr(bytes) }
        }
        LitKind::Float(s, _) => obj! { "float": Js::s(s.to_string()) },
        _ => obj! { "other": Js::Bool(true) },
    }
}

impl<'a, 'tcx> Bx<'a, 'tcx> {
    fn id(&self, h: hir::HirId) -> Js {
        // ids are unique within an owner; closures share the owner of their parent fn
        Js::n(h.local_id.as_u32())
    }

    fn resolve(&self, did: DefId, args: GenericArgsRef<'tcx>) -> Option<String> {
        let tcx = self.cx.tcx;
        if !matches!(tcx.def_kind(did), DefKind::AssocFn | DefKind::Fn) {
            return None;
        }
        if args.len() != tcx.generics_of(did).count() {
            return None;
        }
        let env = ty::TypingEnv::post_analysis(tcx, self.owner.to_def_id());
        match ty::Instance::try_resolve(tcx, env, did, args) {
            Ok(Some(inst)) => {
                let rd = inst.def_id();
                if rd != did {
                    Some(self.cx.path(rd))
                } else {
                    None
                }
            }
            _ => None,
        }
    }

    fn res_js(&self, res: Res, hid: hir::HirId) -> Vec<(&'static str, Js)> {
        let tcx = self.cx.tcx;
        match res {
            Res::Local(id) => {
                let name = tcx.hir_name(id).to_string();
                vec![("k", Js::s("Local")), ("name", Js::s(name)), ("lid", self.id(id))]
            }
            Res::Def(dk, did) => {
                let mut v = vec![
                    ("k", Js::s("Item")),
                    ("dk", Js::s(format!("{:?}", dk))),
                    ("path", Js::s(self.cx.path(did))),
                ];
                if matches!(dk, DefKind::Fn | DefKind::AssocFn) {
                    let args = self.tr.node_args(hid);
                    if let Some(r) = self.resolve(did, args) {
                        v.push(("inst", Js::s(r)));
                    }
                    if !args.is_empty() {
                        let a: Vec<Js> = args
                            .iter()
                            .map(|g| Js::s(with_np(|| g.to_string())))
                            .collect();
                        v.push(("gargs", Js::Arr(a)));
                    }
                }
                if matches!(dk, DefKind::Const { .. } | DefKind::AssocConst { .. }) {
                    if let Some(l) = did.as_local() {
                        v.push(("val", crate::items::const_value(self.cx, l)));
                    } else if let Ok(rustc_middle::mir::ConstValue::Scalar(
                        rustc_middle::mir::interpret::Scalar::Int(i),
                    )) = tcx.const_eval_poly(did)
                    {
                        let bits = i.to_bits(i.size());
                        v.push(("val", obj! { "int": Js::Str(bits.to_string()) }));
                    }
                }
                v
            }
            Res::SelfCtor(did) => vec![
                ("k", Js::s("Item")),
                ("dk", Js::s("SelfCtor")),
                ("path", Js::s(self.cx.path(did))),
            ],
            other => vec![("k", Js::s("Res")), ("res", Js::s(format!("{:?}", other)))],
        }
    }

    fn qpath(&self, qp: &hir::QPath<'tcx>, hid: hir::HirId) -> Vec<(&'static str, Js)> {
        let res = self.tr.qpath_res(qp, hid);
        self.res_js(res, hid)
    }

    fn pat_expr(&self, pe: &hir::PatExpr<'tcx>) -> Js {
        match &pe.kind {
            hir::PatExprKind::Lit { lit, negated } => {
                obj! { "k": Js::s("Lit"), "lit": lit_js(lit, *negated) }
            }
            hir::PatExprKind::Path(qp) => Js::Obj(self.qpath(qp, pe.hir_id)),
        }
    }

    pub fn pat(&self, p: &hir::Pat<'tcx>) -> Js {
        use hir::PatKind::*;
        let mut v: Vec<(&'static str, Js)> = Vec::new();
        match &p.kind {
            Wild => v.push(("k", Js::s("Wild"))),
            Missing => v.push(("k", Js::s("Missing"))),
            Never => v.push(("k", Js::s("Never"))),
            Binding(mode, id, ident, sub) => {
                v.push(("k", Js::s("Bind")));
                v.push(("name", Js::s(ident.name.to_string())));
                v.push(("lid", self.id(*id)));
                v.push(("byref", Js::Bool(!matches!(mode.0, hir::ByRef::No))));
                v.push(("mut", Js::Bool(mode.1.is_mut())));
                if let Some(s) = sub {
                    v.push(("sub", self.pat(s)));
                }
            }
            Struct(qp, fields, _) => {
                v.push(("k", Js::s("Struct")));
                v.push(("path", Js::Obj(self.qpath(qp, p.hir_id))));
                let fs: Vec<Js> = fields
                    .iter()
                    .map(|f| {
                        obj! { "name": Js::s(f.ident.name.to_string()), "pat": self.pat(f.pat) }
                    })
                    .collect();
                v.push(("fields", Js::Arr(fs)));
            }
            TupleStruct(qp, pats, ddp) => {
                v.push(("k", Js::s("TupleStruct")));
                v.push(("path", Js::Obj(self.qpath(qp, p.hir_id))));
                v.push(("pats", Js::Arr(pats.iter().map(|x| self.pat(x)).collect())));
                if let Some(i) = ddp.as_opt_usize() {
                    v.push(("dotdot", Js::n(i as u32)));
                }
            }
            Or(pats) => {
                v.push(("k", Js::s("Or")));
                v.push(("pats", Js::Arr(pats.iter().map(|x| self.pat(x)).collect())));
            }
            Tuple(pats, ddp) => {
                v.push(("k", Js::s("Tuple")));
                v.push(("pats", Js::Arr(pats.iter().map(|x| self.pat(x)).collect())));
                if let Some(i) = ddp.as_opt_usize() {
                    v.push(("dotdot", Js::n(i as u32)));
                }
            }
            Box(s) | Deref(s) => {
                v.push(("k", Js::s("DerefPat")));
                v.push(("sub", self.pat(s)));
            }
            Ref(s, _, _) => {
                v.push(("k", Js::s("RefPat")));
                v.push(("sub", self.pat(s)));
            }
            Expr(pe) => {
                v.push(("k", Js::s("ExprPat")));
                v.push(("e", self.pat_expr(pe)));
            }
            Guard(s, e) => {
                v.push(("k", Js::s("GuardPat")));
                v.push(("sub", self.pat(s)));
                v.push(("guard", self.expr(e, &None)));
            }
            Range(lo, hi, end) => {
                v.push(("k", Js::s("RangePat")));
                v.push(("lo", Js::opt(lo.map(|x| self.pat_expr(x)))));
                v.push(("hi", Js::opt(hi.map(|x| self.pat_expr(x)))));
                v.push(("incl", Js::Bool(matches!(end, hir::RangeEnd::Included))));
            }
            Slice(a, m, b) => {
                v.push(("k", Js::s("SlicePat")));
                v.push(("before", Js::Arr(a.iter().map(|x| self.pat(x)).collect())));
                v.push(("mid", Js::opt(m.map(|x| self.pat(x)))));
                v.push(("after", Js::Arr(b.iter().map(|x| self.pat(x)).collect())));
            }
            Err(_) => v.push(("k", Js::s("ErrPat"))),
        }
        v.push(("sp", self.cx.span(p.span)));
        Js::Obj(v)
    }

    fn block(&self, b: &hir::Block<'tcx>, pmac: &Option<String>) -> Js {
        let mut stmts = Vec::new();
        for s in b.stmts {
            match &s.kind {
                hir::StmtKind::Let(l) => {
                    let mac = self.cx.mac(l.span);
                    stmts.push(obj! {
                        "k": Js::s("LetStmt"),
                        "pat": self.pat(l.pat),
                        "ty": Js::opt(l.ty.map(|_| Js::s(self.cx.ty(self.tr.node_type(l.pat.hir_id))))),
                        "init": Js::opt(l.init.map(|e| self.expr(e, &mac))),
                        "els": Js::opt(l.els.map(|b| self.block(b, &mac))),
                        "sp": self.cx.span(l.span),
                        "mac": if mac != *pmac { Js::opt(mac.clone().map(Js::s)) } else { Js::Null },
                    });
                }
                hir::StmtKind::Item(_) => {}
                hir::StmtKind::Expr(e) => stmts.push(obj! {
                    "k": Js::s("ExprStmt"), "e": self.expr(e, pmac), "semi": Js::Bool(false),
                }),
                hir::StmtKind::Semi(e) => stmts.push(obj! {
                    "k": Js::s("ExprStmt"), "e": self.expr(e, pmac), "semi": Js::Bool(true),
                }),
            }
        }
        let unsafe_ = matches!(
            b.rules,
            hir::BlockCheckMode::UnsafeBlock(hir::UnsafeSource::UserProvided)
        );
        obj! {
            "k": Js::s("Block"),
            "id": self.id(b.hir_id),
            "stmts": Js::Arr(stmts),
            "expr": Js::opt(b.expr.map(|e| self.expr(e, pmac))),
            "unsafe": if unsafe_ { Js::Bool(true) } else { Js::Null },
            "sp": self.cx.span(b.span),
        }
    }

    fn strip<'h>(&self, mut e: &'h hir::Expr<'tcx>) -> &'h hir::Expr<'tcx> {
        while let hir::ExprKind::DropTemps(inner) = e.kind {
            e = inner;
        }
        e
    }

    pub fn expr(&self, e0: &hir::Expr<'tcx>, pmac: &Option<String>) -> Js {
        use hir::ExprKind::*;
        let e = self.strip(e0);
        let mac = self.cx.mac(e.span);
        let m = &mac;
        let mut v: Vec<(&'static str, Js)> = Vec::new();
        match &e.kind {
            ConstBlock(_) => v.push(("k", Js::s("ConstBlock"))),
            Array(xs) => {
                v.push(("k", Js::s("Array")));
                v.push(("elems", Js::Arr(xs.iter().map(|x| self.expr(x, m)).collect())));
            }
            Call(f, args) => {
                v.push(("k", Js::s("Call")));
                v.push(("f", self.expr(f, m)));
                v.push(("args", Js::Arr(args.iter().map(|x| self.expr(x, m)).collect())));
            }
            MethodCall(seg, recv, args, _) => {
                v.push(("k", Js::s("MethodCall")));
                v.push(("name", Js::s(seg.ident.name.to_string())));
                if let Some(did) = self.tr.type_dependent_def_id(e.hir_id) {
                    v.push(("callee", Js::s(self.cx.path(did))));
                    let args_ = self.tr.node_args(e.hir_id);
                    if let Some(r) = self.resolve(did, args_) {
                        v.push(("inst", Js::s(r)));
                    }
                }
                v.push(("recv", self.expr(recv, m)));
                v.push(("recv_ty", Js::s(self.cx.ty(self.tr.expr_ty_adjusted(recv)))));
                v.push(("args", Js::Arr(args.iter().map(|x| self.expr(x, m)).collect())));
            }
            Use(x, _) => {
                v.push(("k", Js::s("UseExpr")));
                v.push(("e", self.expr(x, m)));
            }
            Tup(xs) => {
                v.push(("k", Js::s("Tup")));
                v.push(("elems", Js::Arr(xs.iter().map(|x| self.expr(x, m)).collect())));
            }
            Binary(op, a, b) => {
                v.push(("k", Js::s("Binary")));
                v.push(("op", Js::s(op.node.as_str())));
                v.push(("l", self.expr(a, m)));
                v.push(("r", self.expr(b, m)));
                if let Some(did) = self.tr.type_dependent_def_id(e.hir_id) {
                    v.push(("overloaded", Js::s(self.cx.path(did))));
                }
            }
            Unary(op, a) => {
                v.push(("k", Js::s("Unary")));
                v.push(("op", Js::s(op.as_str())));
                v.push(("e", self.expr(a, m)));
                if let Some(did) = self.tr.type_dependent_def_id(e.hir_id) {
                    v.push(("overloaded", Js::s(self.cx.path(did))));
                }
            }
            Lit(l) => {
                v.push(("k", Js::s("Lit")));
                v.push(("lit", lit_js(l, false)));
            }
            Cast(x, _) => {
                v.push(("k", Js::s("Cast")));
                v.push(("e", self.expr(x, m)));
            }
            Type(x, _) => {
                v.push(("k", Js::s("TypeAscr")));
                v.push(("e", self.expr(x, m)));
            }
            DropTemps(_) => unreachable!(),
            Let(l) => {
                v.push(("k", Js::s("Let")));
                v.push(("pat", self.pat(l.pat)));
                v.push(("init", self.expr(l.init, m)));
            }
            If(c, t, el) => {
                v.push(("k", Js::s("If")));
                v.push(("cond", self.expr(c, m)));
                v.push(("then", self.expr(t, m)));
                v.push(("else", Js::opt(el.map(|x| self.expr(x, m)))));
            }
            Loop(b, label, src, _) => {
                let mut done = false;
                if let hir::LoopSource::While = src {
                    if let (true, Some(tail)) = (b.stmts.is_empty(), b.expr) {
                        let tail = self.strip(tail);
                        if let If(c, t, Some(_)) = &tail.kind {
                            v.push(("k", Js::s("While")));
                            v.push(("cond", self.expr(c, m)));
                            v.push(("body", self.expr(t, m)));
                            done = true;
                        }
                    }
                }
                if !done {
                    v.push(("k", Js::s("Loop")));
                    v.push(("src", Js::s(format!("{:?}", src))));
                    v.push(("body", self.block(b, m)));
                }
                if let Some(l) = label {
                    v.push(("label", Js::s(l.ident.name.to_string())));
                }
            }
            Match(scrut, arms, src) => {
                let mut done = false;
                match src {
                    hir::MatchSource::TryDesugar(_) => {
                        if let Call(_, [inner]) = &self.strip(scrut).kind {
                            v.push(("k", Js::s("Try")));
                            v.push(("e", self.expr(inner, m)));
                            done = true;
                        }
                    }
                    hir::MatchSource::ForLoopDesugar => {
                        // match IntoIterator::into_iter(head) { mut iter => loop { match next(&mut iter) {None=>break, Some(pat)=>body} } }
                        if let (Call(_, [head]), [arm]) = (&self.strip(scrut).kind, &arms[..]) {
                            if let Loop(lb, label, hir::LoopSource::ForLoop, _) =
                                &self.strip(arm.body).kind
                            {
                                let inner = lb
                                    .stmts
                                    .first()
                                    .and_then(|s| match &s.kind {
                                        hir::StmtKind::Expr(x) | hir::StmtKind::Semi(x) => Some(*x),
                                        _ => None,
                                    })
                                    .or(lb.expr);
                                if let Some(inner) = inner {
                                    if let Match(_, [_none, some], _) = &self.strip(inner).kind {
                                        let bound: Option<&hir::Pat<'tcx>> = match &some.pat.kind {
                                            hir::PatKind::TupleStruct(_, [p], _) => Some(p),
                                            hir::PatKind::Struct(_, [f], _) => Some(f.pat),
                                            _ => None,
                                        };
                                        if let Some(p) = bound {
                                            v.push(("k", Js::s("For")));
                                            v.push(("pat", self.pat(p)));
                                            v.push(("iter", self.expr(head, m)));
                                            v.push(("body", self.expr(some.body, m)));
                                            v.push((
                                                "loop_id",
                                                self.id(self.strip(arm.body).hir_id),
                                            ));
                                            if let Some(l) = label {
                                                v.push(("label", Js::s(l.ident.name.to_string())));
                                            }
                                            done = true;
                                        }
                                    }
                                }
                            }
                        }
                    }
                    _ => {}
                }
                if !done {
                    v.push(("k", Js::s("Match")));
                    v.push(("src", Js::s(src.name())));
                    v.push(("scrut", self.expr(scrut, m)));
                    let arms_js: Vec<Js> = arms
                        .iter()
                        .map(|a| {
                            obj! {
                                "pat": self.pat(a.pat),
                                "guard": Js::opt(a.guard.map(|g| self.expr(g, m))),
                                "body": self.expr(a.body, m),
                                "sp": self.cx.span(a.span),
                            }
                        })
                        .collect();
                    v.push(("arms", Js::Arr(arms_js)));
                }
            }
            Closure(c) => {
                v.push(("k", Js::s("Closure")));
                v.push(("def", Js::s(self.cx.path(c.def_id.to_def_id()))));
                let body = self.cx.tcx.hir_body(c.body);
                v.push(("params", Js::Arr(body.params.iter().map(|p| self.pat(p.pat)).collect())));
                v.push(("body", self.expr(body.value, m)));
            }
            Block(b, label) => {
                let bj = self.block(b, m);
                if let Js::Obj(fields) = bj {
                    v = fields;
                }
                if let Some(l) = label {
                    v.push(("label", Js::s(l.ident.name.to_string())));
                }
                // Block already has k/id/sp; add ty/mac and return
                v.push(("ty", Js::s(self.cx.ty(self.tr.expr_ty(e)))));
                if mac != *pmac {
                    v.push(("mac", Js::opt(mac.clone().map(Js::s))));
                }
                return Js::Obj(v);
            }
            Assign(l, r, _) => {
                v.push(("k", Js::s("Assign")));
                v.push(("l", self.expr(l, m)));
                v.push(("r", self.expr(r, m)));
            }
            AssignOp(op, l, r) => {
                v.push(("k", Js::s("AssignOp")));
                v.push(("op", Js::s(op.node.as_str())));
                v.push(("l", self.expr(l, m)));
                v.push(("r", self.expr(r, m)));
                if let Some(did) = self.tr.type_dependent_def_id(e.hir_id) {
                    v.push(("overloaded", Js::s(self.cx.path(did))));
                }
            }
            Field(x, ident) => {
                v.push(("k", Js::s("Field")));
                v.push(("e", self.expr(x, m)));
                v.push(("name", Js::s(ident.name.to_string())));
                v.push(("base_ty", Js::s(self.cx.ty(self.tr.expr_ty_adjusted(x)))));
            }
            Index(a, i, _) => {
                v.push(("k", Js::s("Index")));
                v.push(("e", self.expr(a, m)));
                v.push(("idx", self.expr(i, m)));
                v.push(("base_ty", Js::s(self.cx.ty(self.tr.expr_ty_adjusted(a)))));
                if let Some(did) = self.tr.type_dependent_def_id(e.hir_id) {
                    v.push(("overloaded", Js::s(self.cx.path(did))));
                }
            }
            Path(qp) => {
                v = self.qpath(qp, e.hir_id);
            }
            AddrOf(kind, mutbl, x) => {
                v.push(("k", Js::s("AddrOf")));
                v.push(("raw", Js::Bool(matches!(kind, hir::BorrowKind::Raw))));
                v.push(("mut", Js::Bool(mutbl.is_mut())));
                v.push(("e", self.expr(x, m)));
            }
            Break(dest, val) => {
                v.push(("k", Js::s("Break")));
                if let Ok(t) = dest.target_id {
                    v.push(("target", self.id(t)));
                }
                v.push(("e", Js::opt(val.map(|x| self.expr(x, m)))));
            }
            Continue(dest) => {
                v.push(("k", Js::s("Continue")));
                if let Ok(t) = dest.target_id {
                    v.push(("target", self.id(t)));
                }
            }
            Ret(val) => {
                v.push(("k", Js::s("Ret")));
                v.push(("e", Js::opt(val.map(|x| self.expr(x, m)))));
            }
            Become(x) => {
                v.push(("k", Js::s("Become")));
                v.push(("e", self.expr(x, m)));
            }
            InlineAsm(_) => v.push(("k", Js::s("InlineAsm"))),
            OffsetOf(..) => v.push(("k", Js::s("OffsetOf"))),
            Struct(qp, fields, tail) => {
                v.push(("k", Js::s("StructLit")));
                v.push(("path", Js::Obj(self.qpath(qp, e.hir_id))));
                let fs: Vec<Js> = fields
                    .iter()
                    .map(|f| {
                        obj! { "name": Js::s(f.ident.name.to_string()), "e": self.expr(f.expr, m) }
                    })
                    .collect();
                v.push(("fields", Js::Arr(fs)));
                if let hir::StructTailExpr::Base(b) = tail {
                    v.push(("base", self.expr(b, m)));
                }
            }
            Repeat(x, _) => {
                v.push(("k", Js::s("Repeat")));
                v.push(("e", self.expr(x, m)));
            }
            Yield(..) => v.push(("k", Js::s("Yield"))),
            UnsafeBinderCast(..) => v.push(("k", Js::s("UnsafeBinderCast"))),
            Err(_) => v.push(("k", Js::s("Err"))),
        }
        v.push(("id", self.id(e.hir_id)));
        v.push(("ty", Js::s(self.cx.ty(self.tr.expr_ty(e)))));
        v.push(("sp", self.cx.span(e.span)));
        if mac != *pmac {
            v.push(("mac", match &mac {
                Some(s) => Js::s(s.clone()),
                None => Js::s(""),
            }));
        }
        // Adjustments that matter for reading the program: overloaded deref.
        let adj = self.tr.expr_adjustments(e);
        if !adj.is_empty() {
            let mut names = Vec::new();
            for a in adj {
                match &a.kind {
                    ty::adjustment::Adjust::Deref(ty::adjustment::DerefAdjustKind::Overloaded(_)) => names.push(Js::s("deref*")),
                    ty::adjustment::Adjust::Deref(_) => names.push(Js::s("deref")),
                    ty::adjustment::Adjust::Borrow(_) => names.push(Js::s("borrow")),
                    ty::adjustment::Adjust::Pointer(p) => names.push(Js::s(format!("{:?}", p))),
                    _ => names.push(Js::s("other")),
                }
            }
            v.push(("adj", Js::Arr(names)));
        }
        Js::Obj(v)
    }
}

fn with_np<F: FnOnce() -> String>(f: F) -> String {
    use rustc_middle::ty::print::{
        with_no_trimmed_paths, with_no_visible_paths, with_resolve_crate_name,
    };
    with_resolve_crate_name!(with_no_visible_paths!(with_no_trimmed_paths!(f())))
}

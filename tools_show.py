#!/usr/bin/env python3
"""Debug aid: tools_show.py <fn path suffix> [hir|mir|guards|calls] [--tag ws] [--crate ruzstd]"""
import sys, os, glob
sys.path.insert(0, os.path.dirname(os.path.abspath(__file__)))
from zsa import facts, hir as H, mir as M, hq
args = [a for a in sys.argv[1:] if not a.startswith("--")]
tag = "ws"; crate = "ruzstd"
for i, a in enumerate(sys.argv):
    if a == "--tag": tag = sys.argv[i + 1]
    if a == "--crate": crate = sys.argv[i + 1]
args = [a for a in args if a not in (tag, crate)] if "--tag" in sys.argv or "--crate" in sys.argv else args
suffix = args[0]; what = args[1] if len(args) > 1 else "hir"
cr, h, n = facts.load([tag])
c = cr[(crate, tag)]
for p in sorted(c.hir):
    if p.endswith(suffix):
        b = c.hir[p]
        print("##", p, b["file"])
        if what == "hir":
            print(H.show(b["body"]))
        elif what == "guards":
            ix = hq.Index(b)
            for g in ix.all_guards():
                print("  L%-4d %-10s exit-if %-70s errs=%s" % (g["node"]["sp"][2], g["kind"], g.get("raw", g["cond"]), [e.split("::")[-1] for e in g["errs"]]))
        elif what == "calls":
            ix = hq.Index(b)
            for x, _ in H.walk(b["body"]):
                if x.get("k") in ("Call", "MethodCall") and H.callee(x):
                    print("  L%-4d %s" % (x["sp"][2], H.strip_generics(H.callee(x))))
                    for pc in ix.path_conditions(x):
                        print("         [%s] %s" % (pc["kind"], pc["cond"]))
        elif what == "mir" and p in c.mir:
            print(M.dump(M.Body(c.mir[p])))

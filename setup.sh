#!/bin/sh
# Offline setup: build the fact extractor with the pre-installed nightly and warm the
# dependency build cache (so the first check does not pay for compiling clap & co.).
set -e
cd "$(dirname "$0")"
export CARGO_NET_OFFLINE=true
python3 - <<'PY'
import sys
sys.path.insert(0, ".")
from zsa import facts
facts.build_driver()
d, h, n = facts.ensure(["ws"])
print("setup: driver built; facts for %d source files in %s" % (n, d))
PY

#!/usr/bin/env python3
"""Run the quick checks against a seeded change on a scratch copy of /repo.
usage: tools_seeded.py <seeded-id | path/to/patch.diff> [Cxx ...]"""
import json
import os
import shutil
import subprocess
import sys
import tempfile

HERE = os.path.dirname(os.path.abspath(__file__))
sys.path.insert(0, HERE)
from zsa import facts  # noqa: E402


def main():
    arg = sys.argv[1]
    patch = arg if os.path.isfile(arg) else os.path.join(HERE, "seeded", arg, "patch.diff")
    props = sys.argv[2:] or [json.loads(l)["id"] for l in open(os.path.join(HERE, "properties.jsonl"))]
    facts.build_driver()
    base = tempfile.mkdtemp(prefix="zsa-seeded-")
    scratch = os.path.join(base, "repo")
    try:
        subprocess.check_call(["rsync", "-a", "--exclude", "target", "--exclude", ".git", "--exclude", "SEED", facts.REPO + "/", scratch + "/"])
        subprocess.check_call(["git", "init", "-q"], cwd=scratch)
        r = subprocess.run(["git", "apply", "--whitespace=nowarn", os.path.abspath(patch)], cwd=scratch, stdout=subprocess.PIPE, stderr=subprocess.STDOUT, text=True)
        if r.returncode != 0:
            print("patch does not apply:", r.stdout)
            return 2
        cache = os.path.join(base, "cache")
        os.makedirs(cache)
        warm = os.path.join(facts.CACHE, "target")
        if os.path.isdir(warm):
            subprocess.check_call(["cp", "-a", warm, os.path.join(cache, "target")])
        env = dict(os.environ, ZSA_CACHE=cache, ZSA_DRIVER_BIN=facts.DRIVER_BIN, ZSA_EVIDENCE_DIR=os.path.join(base, "evidence"))
        fired = {}
        for p in props:
            r = subprocess.run([os.path.join(HERE, "check"), p, "--tier", "quick", "--repo", scratch], env=env,
                               stdout=subprocess.PIPE, stderr=subprocess.STDOUT, text=True)
            lines = [l for l in r.stdout.splitlines() if l.startswith(("VIOLATION rule=", "UNDECIDED rule="))]
            if "does not build" in r.stdout:
                print(p, "DOES NOT BUILD")
                print(r.stdout[-800:])
                continue
            if lines:
                fired[p] = lines
                print("%s FIRES (%d):" % (p, len(lines)))
                for l in lines[:4]:
                    print("    " + l[:260])
            else:
                print("%s silent" % p)
        print("SUMMARY fired:", sorted(fired))
    finally:
        shutil.rmtree(base, ignore_errors=True)
    return 0


if __name__ == "__main__":
    sys.exit(main())

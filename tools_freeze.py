#!/usr/bin/env python3
"""Freeze the reviewed inventories (tables/*.json) from the tool's own enumeration on the current tree.
Run only after reviewing the printed enumeration; reasons live in tables/reasons_*.py-style dicts below."""
import json
import os
import sys

HERE = os.path.dirname(os.path.abspath(__file__))
sys.path.insert(0, HERE)
from zsa import core, facts  # noqa: E402
from zsa.rules import inventory as INV  # noqa: E402


def freeze_locals():
    """tables/locals.json: per function body, structural name of each local -> the label the rules use for it
    (= the source's spelling on the tree the rules were written against)."""
    os.environ["ZSA_RAW_NAMES"] = "1"
    from zsa import hq
    cfgs = list(facts.CONFIGS)
    crates, h, n = facts.load(cfgs)
    out, conflicts = {}, []
    funcs = {}
    for (cname, tag), cr in sorted(crates.items()):
        funcs.setdefault(cname, set()).update(p_ for p_, b_ in cr.hir.items() if b_.get("kind") in ("Fn", "AssocFn"))
    json.dump({k: sorted(v) for k, v in funcs.items()}, open(os.path.join(HERE, "tables", "functions.json"), "w"), indent=0)
    print("wrote tables/functions.json", {k: len(v) for k, v in funcs.items()})
    for (cname, tag), cr in sorted(crates.items()):
        for path, b in cr.hir.items():
            if b.get("body") is None:
                continue
            names = hq.structural_names(b)
            src = {}

            def rec(x):
                if isinstance(x, dict):
                    if x.get("k") == "Bind" and "lid" in x:
                        src[x["lid"]] = x["name"]
                    for v in x.values():
                        rec(v)
                elif isinstance(x, list):
                    for v in x:
                        rec(v)
            rec(b.get("params"))
            rec(b.get("body"))
            t = out.setdefault(path, {})
            for lid, c in names.items():
                if c == "self" or lid not in src:
                    continue
                if c in t and t[c] != src[lid]:
                    conflicts.append((path, c, t[c], src[lid], tag))
                    continue
                t[c] = src[lid]
    out = {k: v for k, v in out.items() if v}
    p = os.path.join(HERE, "tables", "locals.json")
    json.dump(out, open(p, "w"), indent=0, sort_keys=True)
    print("wrote", p, len(out), "bodies,", sum(len(v) for v in out.values()), "locals,", len(conflicts), "conflicts")
    for c in conflicts[:20]:
        print("  conflict", c)


def main():
    which = sys.argv[1]
    if which == "locals":
        return freeze_locals()
    mod = __import__("zsa.props.%s" % which, fromlist=["x"])
    cfgs = list(mod.FREEZE_CONFIGS)
    crates, h, n = facts.load(cfgs)
    ctx = core.Ctx(which.upper(), "quick", crates, h, n, 0)
    out = mod.freeze(ctx, cfgs)
    p = os.path.join(HERE, "tables", "%s.json" % which)
    os.makedirs(os.path.dirname(p), exist_ok=True)
    json.dump(out, open(p, "w"), indent=1, sort_keys=True)
    print("wrote", p, {k: len(v) for k, v in out.items() if isinstance(v, (dict, list))})


if __name__ == "__main__":
    main()

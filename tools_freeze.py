#!/usr/bin/env python3
"""Freeze the reviewed inventories (tables/*.json) from the tool's own enumeration on the current tree.
Run only after reviewing the printed enumeration; reasons live in tables/reasons_*.py-style dicts below."""
import json
import os
import sys

HERE = os.path.dirname(os.path.abspath(__file__))
sys.path.insert(0, HERE)
from zsa import core, facts  # noqa: E402
from zsa.rules import inventory as INV  # noqa: E402


def main():
    which = sys.argv[1]
    mod = __import__("zsa.props.%s" % which, fromlist=["x"])
    cfgs = list(mod.FREEZE_CONFIGS)
    crates, h, n = facts.load(cfgs)
    ctx = core.Ctx(which.upper(), "quick", crates, h, n, 0)
    out = mod.freeze(ctx, cfgs)
    p = os.path.join(HERE, "tables", "%s.json" % which)
    os.makedirs(os.path.dirname(p), exist_ok=True)
    json.dump(out, open(p, "w"), indent=1, sort_keys=True)
    print("wrote", p, {k: len(v) for k, v in out.items() if isinstance(v, (dict, list))})


if __name__ == "__main__":
    main()

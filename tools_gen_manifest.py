#!/usr/bin/env python3
"""Regenerate MANIFEST.json from the property modules (zsa/props/cXX.py)."""
import importlib
import json
import os
import sys

HERE = os.path.dirname(os.path.abspath(__file__))
sys.path.insert(0, HERE)
from zsa import core  # noqa: E402

props = [json.loads(l) for l in open(os.path.join(HERE, "properties.jsonl"))]
checks, na = [], []
for p in props:
    pid = p["id"]
    try:
        mod = importlib.import_module("zsa.props.%s" % pid.lower())
    except ModuleNotFoundError:
        na.append({"property_id": pid, "reason": "static check not built yet (work in progress; see DESIGN.md §4)"})
        continue
    if getattr(mod, "NOT_APPLICABLE", None):
        na.append({"property_id": pid, "reason": mod.NOT_APPLICABLE})
        continue
    checks.append({
        "property_id": pid,
        "quick_cmd": "./check %s --tier quick" % pid,
        "thorough_cmd": "./check %s --tier thorough" % pid,
        "evidence_file": "evidence/%s.json" % pid,
        "replay_cmd_template": "./check %s --replay {path}" % pid,
        "engine": "zsa",
        "level_claimed": {
            "category": "other",
            "text": core.full_explanation(mod),
            "design_ref": "DESIGN.md §4 %s, §11, §13" % pid,
        },
        "level_note": "Structural necessary conditions only; trusted base: rustc front end (HIR/typeck/MIR/const-eval), "
                      "driver/, zsa/ rule engine, spec/ RFC transcription, reviewed tables. " + "; ".join(mod.ASSUMPTIONS),
        "technique": getattr(mod, "TECHNIQUE", "static analysis over rustc HIR/MIR facts"),
    })
man = {
    "version": 1,
    "setup_cmd": "./setup.sh",
    "hooks": {
        "guard": "ruzstd_verif",
        "enable": "none needed: the rustc_private driver reads private items directly; no hook code exists in /repo",
        "baseline_off_cmd": "cd /repo && cargo test --workspace --no-fail-fast --offline",
        "source_commits": [],
        "add_only": True,
    },
    "engines": [{
        "name": "zsa",
        "path": "check",
        "serves_properties": [c["property_id"] for c in checks],
        "kind_free_text": "static analysis: rustc_private fact extractor (HIR trees with resolved paths/types, MIR, "
                          "const-evaluated items) + Python rule engine (coverage, table/layout vs RFC oracle, dominance, "
                          "who-may-call, region typing, inventories); nothing from /repo is executed",
    }],
    "checks": checks,
    "not_applicable": na,
    "notes": "All checks are static (see DESIGN.md). Each decides named structural clauses that are necessary conditions "
             "of the property, not the behaviour itself; level_claimed.text lists what is and is not decided.",
}
json.dump(man, open(os.path.join(HERE, "MANIFEST.json"), "w"), indent=1)
print("MANIFEST: %d checks, %d not_applicable" % (len(checks), len(na)))

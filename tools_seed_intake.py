#!/usr/bin/env python3
"""Intake of an independently produced breaking change: verify it in a fresh scratch worktree
(demo fails with the change, passes without; existing suite passes with the change), run all checks
against it, and store it under seeded/<id>/.
usage: tools_seed_intake.py <agent worktree dir> <seed id> <property id>"""
import json
import os
import re
import shutil
import subprocess
import sys
import time

HERE = os.path.dirname(os.path.abspath(__file__))


def sh(cmd, cwd=None, env=None, timeout=1500):
    r = subprocess.run(cmd, cwd=cwd, env=env, shell=isinstance(cmd, str), stdout=subprocess.PIPE, stderr=subprocess.STDOUT, text=True, timeout=timeout)
    return r.returncode, r.stdout


def failing_tests(out):
    f = set(re.findall(r"^test (\S+) \.\.\. FAILED", out, re.M))
    f |= set(re.findall(r"^\s+(\S+) stdout ----", out, re.M)) if False else set()
    return f


def summary(out):
    return re.findall(r"^test result: .*", out, re.M)


def main():
    src, sid, prop = sys.argv[1], sys.argv[2], sys.argv[3]
    demo_cmd = sys.argv[4] if len(sys.argv) > 4 else None     # extra command when the demo needs non-default features
    seed = os.path.join(src, "SEED")
    for f in ("patch.diff", "demo.diff", "README.md"):
        if not os.path.exists(os.path.join(seed, f)):
            print("missing", f)
            return 2
    wt = "/tmp/verify-%s" % sid
    sh(["git", "-C", "/repo", "worktree", "remove", "--force", wt])
    rc, out = sh(["git", "-C", "/repo", "worktree", "add", "-q", "--detach", wt, "HEAD"])
    if rc:
        print(out)
        return 2
    env = dict(os.environ, CARGO_TARGET_DIR=os.path.join(wt, "target"), CARGO_NET_OFFLINE="true")
    res = {"seed": sid, "property": prop}
    try:
        rc, out = sh(["git", "apply", "--whitespace=nowarn", os.path.join(seed, "demo.diff")], cwd=wt)
        if rc:
            print("demo.diff does not apply:", out)
            return 2
        t0 = time.time()
        rc0, out0 = sh("cargo test --workspace --offline --no-fail-fast 2>&1", cwd=wt, env=env)
        res["without_change"] = {"exit": rc0, "failing": sorted(failing_tests(out0)), "results": summary(out0), "wall_s": round(time.time() - t0)}
        if demo_cmd:
            rcd0, outd0 = sh(demo_cmd + " 2>&1", cwd=wt, env=env)
            res["without_change"]["demo_cmd"] = {"cmd": demo_cmd, "exit": rcd0, "failing": sorted(failing_tests(outd0)), "results": summary(outd0)}
        rc, out = sh(["git", "apply", "--whitespace=nowarn", os.path.join(seed, "patch.diff")], cwd=wt)
        if rc:
            print("patch.diff does not apply:", out)
            return 2
        t0 = time.time()
        rc1, out1 = sh("cargo test --workspace --offline --no-fail-fast 2>&1", cwd=wt, env=env)
        res["with_change"] = {"exit": rc1, "failing": sorted(failing_tests(out1)), "results": summary(out1), "wall_s": round(time.time() - t0)}
        if demo_cmd:
            rcd1, outd1 = sh(demo_cmd + " 2>&1", cwd=wt, env=env)
            res["with_change"]["demo_cmd"] = {"cmd": demo_cmd, "exit": rcd1, "failing": sorted(failing_tests(outd1)), "results": summary(outd1)}
        demo_files = re.findall(r"^\+\+\+ b/(\S+)", open(os.path.join(seed, "demo.diff")).read(), re.M)
        res["demo_files"] = demo_files
        ok_without = rc0 == 0 and not res["without_change"]["failing"]
        ok_with = rc1 != 0 and res["with_change"]["failing"]
        if demo_cmd:
            # the default-feature suite (existing tests + demo) passes either way; the demo command decides
            ok_without = ok_without and rcd0 == 0
            # the existing tests pass with the change: whatever fails in the default-feature run is one of the demo's own tests
            ok_with = rcd1 != 0 and bool(res["with_change"]["demo_cmd"]["failing"]) and \
                set(res["with_change"]["failing"]) <= set(res["with_change"]["demo_cmd"]["failing"])
        res["confirmed"] = bool(ok_without and ok_with)
        print(json.dumps(res, indent=1))
        if not res["confirmed"]:
            print("NOT CONFIRMED")
            print(out1[-1500:])
    finally:
        sh(["git", "-C", "/repo", "worktree", "remove", "--force", wt])
        shutil.rmtree(wt, ignore_errors=True)
    # run the checks against it
    rc, out = sh([sys.executable, os.path.join(HERE, "tools_seeded.py"), os.path.join(seed, "patch.diff")], timeout=3000)
    fired = re.findall(r"^SUMMARY fired: (.*)$", out, re.M)
    res["checks_fired"] = eval(fired[0]) if fired else None
    res["check_reports"] = [l.strip()[:300] for l in out.splitlines() if l.strip().startswith(("VIOLATION rule=", "UNDECIDED rule="))][:12]
    print("checks fired:", res["checks_fired"])
    for l in res["check_reports"][:6]:
        print("   ", l)
    dst = os.path.join(HERE, "seeded", sid)
    os.makedirs(dst, exist_ok=True)
    for f in ("patch.diff", "demo.diff"):
        shutil.copy(os.path.join(seed, f), os.path.join(dst, f))
    shutil.copy(os.path.join(seed, "README.md"), os.path.join(dst, "AUTHOR_README.md"))
    meta = {"id": sid, "breaks_property": prop, "produced_by": "independent sub-agent given only the property text and a scratch worktree",
            "needs_to_manifest": "see AUTHOR_README.md", "confirmed": res.get("confirmed"),
            "what_was_run": {"command": "cargo test --workspace --offline --no-fail-fast (fresh scratch worktree of /repo HEAD, demo applied; then change applied)",
                             "without_change": res.get("without_change"), "with_change": res.get("with_change")},
            "checks_fired_on_it": res["checks_fired"], "check_reports": res["check_reports"]}
    json.dump(meta, open(os.path.join(dst, "meta.json"), "w"), indent=1)
    return 0


if __name__ == "__main__":
    sys.exit(main())
